#!/bin/sh
# Offline setup: hypothesis into /venv if absent, atheris beside it (optional),
# then a boot self-test of simworld against /repo's working tree.
cd "$(dirname "$0")" || exit 2
mkdir -p .work evidence replays
if ! /venv/bin/python -c "import hypothesis" 2>/dev/null; then
  PIP_NO_INDEX=1 /venv/bin/pip install --no-index --find-links /opt/veriftools/wheels hypothesis || exit 2
fi
if ! PYTHONPATH=/verif/.deps /venv/bin/python -c "import atheris" 2>/dev/null; then
  PIP_NO_INDEX=1 /venv/bin/pip install --no-index --find-links /opt/veriftools/wheels --target /verif/.deps atheris >/dev/null 2>&1 || echo "atheris not installed (optional)"
fi
PYTHONHASHSEED=0 PYTHONPATH=/verif /venv/bin/python -W ignore -c "
from mv import sim
sim.boot('default')
sim.reset()
print('simworld boot ok')
" 2>/dev/null || { echo 'HARNESS-ERROR simworld boot failed'; exit 2; }
