"""langmut: structure-aware mutation of valid Mistral definitions (C14).

A definition is parsed to a Python object, 0..3 mutation operators are
applied at drawn paths, and the result is written back as YAML in a drawn
style (block / flow, indent width, quoted keys, comments) optionally followed
by a text-level mutation.  Every choice goes through the Draw interface.
"""
import copy

import yaml

# ---------------------------------------------------------------- base corpus

WF_RICH = """---
version: '2.0'
wf_rich:
  description: exercises most task attributes
  type: direct
  tags: [a, b]
  input:
    - x
    - y: 2
    - lst: [1, 2, 3]
  output:
    res: <% $.get(r1) %>
    all: '{{ _.get("r2") }}'
  output-on-error:
    failed: <% $.get(r1) %>
  vars:
    v1: 10
    v2: <% $.x %>
  task-defaults:
    retry:
      count: 2
      delay: 1
    on-error:
      - recover
  tasks:
    t1:
      description: first
      action: std.echo output=<% $.x %>
      publish:
        r1: <% task(t1).result %>
      publish-on-error:
        e1: failed
      wait-before: 1
      wait-after: 1
      timeout: 30
      keep-result: true
      safe-rerun: true
      target: <% $.get(tgt, null) %>
      on-success:
        - t2: <% $.r1 != null %>
        - t3
      on-error: fail
      on-complete:
        - noop
    t2:
      with-items:
        - i in <% $.lst %>
        - j in [4, 5, 6]
      concurrency: 2
      action: std.echo
      input:
        output: <% $.i + $.j %>
      retry:
        count: 3
        delay: 0
        break-on: <% $.get(stop, false) %>
        continue-on: '{{ false }}'
      publish:
        r2: <% task(t2).result %>
      on-success:
        next:
          - t4
        publish:
          branch:
            b: 1
          global:
            g: <% $.r2 %>
    t3:
      workflow: sub_wf
      input:
        a: <% $.y %>
      pause-before: false
      fail-on: <% $.x = 100 %>
      on-success:
        - t4
    t4:
      join: all
      action: std.noop
      on-success:
        - succeed
    recover:
      action: std.noop
      retry: count=1 delay=0
sub_wf:
  type: reverse
  input:
    - a
  output:
    o: <% $.p %>
  tasks:
    s1:
      action: std.echo output=<% $.a %>
      publish:
        p: <% task(s1).result %>
    s2:
      action: std.noop
      requires: [s1]
"""

WF_SMALL = """version: '2.0'
wf_small:
  input:
    - flag: true
  tasks:
    a:
      action: std.noop
      on-success:
        - b: <% $.flag %>
        - c: <% not $.flag %>
    b:
      action: std.echo output="b"
      publish:
        out: <% task(b).result %>
    c:
      action: std.fail
      on-error:
        - d
    d:
      action: std.noop
"""

WF_JOIN = """version: "2.0"
wf_join:
  tasks:
    l:
      action: std.noop
      on-success: j
    r:
      action: std.noop
      on-complete: j
    j:
      join: 1
      action: std.echo output={{ 1 + 1 }}
      on-success:
        - pause
"""

WF_TWO = """version: '2.0'
first:
  tasks:
    second:
      action: std.noop
      on-success: [third]
    third:
      workflow: second
second:
  input: [n: 1]
  tasks:
    first:
      action: std.echo output=<% $.n %>
"""

WB_RICH = """---
version: '2.0'
name: wb
description: a workbook
tags: [x]
actions:
  concat:
    description: joins two strings
    tags: [str]
    base: std.echo
    base-input:
      output: <% $.s1 %>+<% $.s2 %>
    input:
      - s1
      - s2: tail
    output: <% $ %>!
  shout:
    base: wb.concat
    base-input:
      s1: '{{ _.what }}'
    input: [what]
workflows:
  main:
    type: direct
    input:
      - who: me
    output:
      final: <% $.res %>
    tasks:
      say:
        action: wb.concat s1=<% $.who %> s2="x"
        publish:
          res: <% task(say).result %>
        on-success:
          - helper
      helper:
        workflow: helper
        input:
          v: <% $.res %>
  helper:
    type: direct
    input:
      - v
    tasks:
      # a task named like the other workflow
      main:
        action: wb.shout what=<% $.v %>
"""

WB_SMALL = """version: '2.0'
name: book
workflows:
  w1:
    tasks:
      t:
        action: std.noop
  w2:
    tasks:
      w1:
        action: std.noop
        on-success: [t]
      t:
        workflow: w1
"""

ACT_RICH = """---
version: '2.0'
greet:
  description: says hello
  tags: [hello]
  base: std.echo
  base-input:
    output: 'Hello, <% $.name %>'
  input:
    - name
    - polite: true
  output: <% $ %>
shell:
  base: std.echo
  base-input:
    output: '{{ _.cmd }}'
  input: [cmd]
"""

CORPUS = {
    'wf': [WF_RICH, WF_SMALL, WF_JOIN, WF_TWO],
    'wb': [WB_RICH, WB_SMALL],
    'act': [ACT_RICH],
}

KEYS = ['version', 'name', 'description', 'tags', 'type', 'input', 'output',
        'output-on-error', 'vars', 'task-defaults', 'tasks', 'workflows',
        'actions', 'action', 'workflow', 'with-items', 'concurrency', 'retry',
        'count', 'delay', 'break-on', 'continue-on', 'wait-before',
        'wait-after', 'timeout', 'pause-before', 'fail-on', 'publish',
        'publish-on-error', 'publish-on-skip', 'on-success', 'on-error',
        'on-complete', 'on-skip', 'next', 'branch', 'global', 'atomic',
        'join', 'requires', 'target', 'keep-result', 'safe-rerun', 'base',
        'base-input', 'policies']

VALUES = [None, True, False, 0, 1, -1, 2, 2.0, 1e308, 10 ** 20, '', ' ', 'x',
          'noop', 'fail', 'succeed', 'pause', 'std.noop', 'std.echo',
          'std.echo output=1', 'std.echo output="a b" x=[1, 2]',
          'no.such.action', 'wf_small', 'sub_wf', 'main', 'helper', 'all',
          'one', 'direct', 'reverse', '2.0', '1.0', 'v2',
          [], {}, [1], ['a'], [None], {'a': 1}, {'a': {'b': [1, {'c': 2}]}},
          ['a', {'b': 'c'}], [['a']], {'next': 't4'}, {'count': 1},
          {'count': '<% 1 %>', 'delay': '{{ 2 }}'},
          '<% $.x %>', '<% $.x', '$.x %>', '<% %>', '<%%>', '<% 1 + %>',
          '<% task(t1).result %>', '<% $.x %> and <% $.y %>',
          '{{ _.x }}', '{{ _.x', '{{ }}', '{% if %}', '{% for i in _.l %}{{ i }}{% endfor %}',
          '<% $.x %>{{ _.y }}', '<% "{{" %>', 'i in <% $.lst %>',
          'i in [1, 2]', 'i in', 'in <% $ %>', 'k, v in <% $.d %>',
          'a' * 300, u'é中文', 'null', '~', 'true', 'yes',
          '123', '1e3', '0x10', '- a', 'a: b', '# c', '"q"', "'q'",
          '@x', '`x`', '%x', '*x', '&x', '!x', '|', '>', '\t', '\n',
          'a\nb', 'line1\n  line2: x']

EXPR_DICT_KEYS = ('input', 'publish', 'publish-on-error', 'publish-on-skip',
                  'vars', 'output', 'base-input', 'branch', 'global',
                  'atomic')
BROKEN_EXPRS = ['<% 1 + %>', '<% * %>', '{{ 1 + }}', '<% $.a. %>',
                'x <% ) %> y']

NAMES = ['', ' ', 'a b', 'a.b', 'a-b', 'a_b', 'noop', 'fail', 'succeed',
         'pause', 'version', 'name', 'tasks', 'workflows', 'actions', 'input',
         'x' * 260, u'é中', 0, 1, 2.5, True, None, '<% $.x %>',
         '{{ _.x }}', 'a:b', 'a#b', '- a', '*a', '&a', '{a}', '[a]', 'null',
         'true', '~', '123', '1e3', 'wf', 'w1', 'main', 't', 't1', 'on',
         'a/b', 'a\\b', 'a"b', "a'b", 'a,b', 'a=b', 'a%', '?', '|', '>']


# ---------------------------------------------------------------- tree walk

def paths(obj, prefix=()):
    """All positions (path tuples) in obj, root excluded."""
    out = []
    if isinstance(obj, dict):
        for k in list(obj.keys()):
            out.append(prefix + (k,))
            out.extend(paths(obj[k], prefix + (k,)))
    elif isinstance(obj, list):
        for i in range(len(obj)):
            out.append(prefix + (i,))
            out.extend(paths(obj[i], prefix + (i,)))
    return out


def get(obj, path):
    for p in path:
        obj = obj[p]
    return obj


def _parent(obj, path):
    return get(obj, path[:-1]), path[-1]


def mutate_once(D, doc):
    """Apply one operator in place; returns a short description."""
    ps = paths(doc)
    if not ps:
        return 'noop'
    path = ps[D.int(0, len(ps) - 1)]
    par, key = _parent(doc, path)
    op = D.choice(['replace', 'replace', 'delete', 'addkey', 'addkey',
                   'rename', 'copy', 'wrap', 'expr', 'retype', 'exprdict'])
    cur = par[key]
    if op == 'exprdict':
        # an expression-bearing mapping gets a value that is not a string
        # and a syntactically broken expression, in a drawn order, among
        # whatever it already holds
        cands = [p_ for p_ in ps if p_ and p_[-1] in EXPR_DICT_KEYS
                 and isinstance(get(doc, p_), dict)]
        if not cands:
            op = 'replace'
        else:
            tp = cands[D.int(0, len(cands) - 1)]
            d = get(doc, tp)
            extra = [('zz_plain', copy.deepcopy(D.choice(
                [1, True, None, [1, 2], {'a': 1}, 2.5]))),
                ('zz_broken', D.choice(BROKEN_EXPRS))]
            if D.bool(0.5):
                extra.reverse()
            items = list(d.items())
            pos = D.int(0, len(items))
            items[pos:pos] = extra
            d.clear()
            for k, v in items:
                d[k] = v
            return 'exprdict@%s' % '/'.join(str(x) for x in tp)
    if op == 'replace':
        par[key] = copy.deepcopy(D.choice(VALUES))
    elif op == 'delete':
        if isinstance(par, dict):
            del par[key]
        else:
            par.pop(key)
    elif op == 'addkey':
        tgt = cur if isinstance(cur, dict) else par
        if isinstance(tgt, dict):
            k = D.choice(KEYS)
            if D.bool(0.35):
                other = ps[D.int(0, len(ps) - 1)]
                try:
                    tgt[k] = copy.deepcopy(get(doc, other))
                except Exception:
                    tgt[k] = None
            else:
                tgt[k] = copy.deepcopy(D.choice(VALUES))
            op = 'addkey:%s' % k
        else:
            tgt.append(copy.deepcopy(D.choice(VALUES)))
    elif op == 'rename':
        if isinstance(par, dict):
            new = D.choice(NAMES)
            try:
                hash(new)
            except TypeError:
                new = str(new)
            # keep key order: rebuild
            items = [(new if k == key else k, v) for k, v in par.items()]
            par.clear()
            for k, v in items:
                par[k] = v
            op = 'rename:%r' % (new,)
        else:
            par[key] = copy.deepcopy(D.choice(VALUES))
    elif op == 'copy':
        other = ps[D.int(0, len(ps) - 1)]
        try:
            par[key] = copy.deepcopy(get(doc, other))
        except Exception:
            pass
    elif op == 'wrap':
        how = D.int(0, 3)
        if how == 0:
            par[key] = [cur]
        elif how == 1:
            par[key] = {D.choice(['next', 'a', 'count', 'publish']): cur}
        elif how == 2 and isinstance(cur, list) and cur:
            par[key] = cur[0]
        elif isinstance(cur, dict):
            par[key] = list(cur.keys())
        else:
            par[key] = str(cur)
    elif op == 'expr':
        if isinstance(cur, str):
            how = D.int(0, 5)
            if how == 0:
                par[key] = '<% ' + cur + ' %>'
            elif how == 1:
                par[key] = cur.replace('%>', '')
            elif how == 2:
                par[key] = cur.replace('<%', '{{').replace('%>', '}}')
            elif how == 3:
                par[key] = cur + ' <% $.'
            elif how == 4:
                par[key] = cur.replace('$', '_')
            else:
                par[key] = cur[:max(0, len(cur) // 2)]
        else:
            par[key] = D.choice(['<% $.x %>', '{{ _.x }}', '<% 1 +'])
    else:   # retype
        if isinstance(cur, bool):
            par[key] = 'true' if cur else 0
        elif isinstance(cur, int):
            par[key] = D.choice([str(cur), float(cur), [cur], -cur, None])
        elif isinstance(cur, str):
            par[key] = D.choice([[cur], {cur: None}, 1, None, True])
        elif isinstance(cur, list):
            par[key] = D.choice([{str(i): v for i, v in enumerate(cur)},
                                 ', '.join(str(v) for v in cur), None])
        elif isinstance(cur, dict):
            par[key] = D.choice([[{k: v} for k, v in cur.items()],
                                 list(cur.keys()), str(cur), None])
        else:
            par[key] = 'x'
    return '%s@%s' % (op, '/'.join(str(p) for p in path))


# ---------------------------------------------------------------- writing

class _Quoted(str):
    pass


def _quoted_representer(dumper, data):
    return dumper.represent_scalar('tag:yaml.org,2002:str', str(data),
                                   style='"')


class _Dumper(yaml.SafeDumper):
    pass


_Dumper.add_representer(_Quoted, _quoted_representer)


def _quote_keys(obj, depth=0, only_depth=None):
    if isinstance(obj, dict):
        out = {}
        for k, v in obj.items():
            kk = k
            if isinstance(k, str) and (only_depth is None or
                                       depth in only_depth):
                kk = _Quoted(k)
            out[kk] = _quote_keys(v, depth + 1, only_depth)
        return out
    if isinstance(obj, list):
        return [_quote_keys(v, depth + 1, only_depth) for v in obj]
    return obj


def dump(D, obj, styles=True):
    """YAML text of obj in a drawn but valid style."""
    if not styles:
        return yaml.dump(obj, Dumper=_Dumper, sort_keys=False,
                         default_flow_style=False), 'plain'
    style = D.choice(['block', 'block', 'block', 'indent4', 'quoted_keys',
                      'flow_leaves', 'flow', 'comments', 'doc_start',
                      'wide'])
    kw = {'sort_keys': False, 'default_flow_style': False,
          'allow_unicode': True}
    o = obj
    if style == 'indent4':
        kw['indent'] = 4
    elif style == 'quoted_keys':
        o = _quote_keys(obj)
    elif style == 'flow_leaves':
        kw['default_flow_style'] = None
    elif style == 'flow':
        kw['default_flow_style'] = True
    elif style == 'wide':
        kw['width'] = 1000
    try:
        text = yaml.dump(o, Dumper=_Dumper, **kw)
    except Exception:
        text = yaml.dump(obj, Dumper=_Dumper, sort_keys=False)
    if style == 'comments':
        lines = text.split('\n')
        out = []
        for i, l in enumerate(lines):
            if l.strip() and i % 3 == 1:
                ind = len(l) - len(l.lstrip())
                out.append(' ' * ind + '# comment %d' % i)
            if l.rstrip().endswith(':') and i % 4 == 2:
                l = l + '   # trailing'
            out.append(l)
        text = '\n'.join(out)
    elif style == 'doc_start':
        text = '---\n' + text
    return text, style


TEXT_OPS = ['none', 'none', 'none', 'none', 'truncate', 'tab', 'dupkey',
            'anchor', 'two_docs', 'garbage', 'deep', 'crlf', 'bom',
            'trailing_ws', 'blank_lines', 'merge_key']


def text_mutate(D, text):
    op = D.choice(TEXT_OPS)
    if op == 'none':
        return text, op
    lines = text.split('\n')
    if op == 'truncate':
        cut = D.int(0, max(0, len(text) - 1))
        return text[:cut], op
    if op == 'tab':
        i = D.int(0, max(0, len(lines) - 1))
        lines[i] = '\t' + lines[i]
    elif op == 'dupkey':
        i = D.int(0, max(0, len(lines) - 1))
        lines.insert(i, lines[i])
    elif op == 'anchor':
        i = D.int(0, max(0, len(lines) - 1))
        if lines[i].rstrip().endswith(':'):
            lines[i] = lines[i].rstrip() + ' &anc'
            lines.append('alias_key: *anc')
        else:
            lines.append('k1: &a [1, 2]\nk2: *a')
    elif op == 'two_docs':
        lines.append('---')
        lines.extend(lines[:5])
    elif op == 'garbage':
        i = D.int(0, max(0, len(lines) - 1))
        lines.insert(i, D.choice(['}{', ']', '%YAML 9.9', '? : ?', '\x00',
                                  '!!python/object:os.system', '- - - -',
                                  '"unterminated', "key: 'unterminated"]))
    elif op == 'deep':
        n = D.choice([50, 500, 3000])
        lines.append('deep: ' + '[' * n + ']' * n)
    elif op == 'crlf':
        return '\r\n'.join(lines), op
    elif op == 'bom':
        return u'﻿' + text, op
    elif op == 'trailing_ws':
        lines = [l + '  ' if l.rstrip().endswith(':') else l for l in lines]
    elif op == 'blank_lines':
        out = []
        for l in lines:
            out.append(l)
            if l.rstrip().endswith(':'):
                out.append('')
        lines = out
    elif op == 'merge_key':
        lines.append('base_: &b {a: 1}\nmerged:\n  <<: *b')
    return '\n'.join(lines), op


def gen_doc(D, kind, base_text, max_mut=3, styles=True):
    """Returns (text, info)."""
    doc = yaml.safe_load(base_text)
    nmut = min(max_mut, D.choice([0, 1, 1, 1, 2, 2, 3]))
    ops = []
    for _ in range(nmut):
        try:
            ops.append(mutate_once(D, doc))
        except Exception as e:   # a mutation that cannot apply is skipped
            ops.append('skipped:%s' % type(e).__name__)
    text, style = dump(D, doc, styles)
    top = 'none'
    if D.bool(0.15):
        text, top = text_mutate(D, text)
    return text, {'ops': ops, 'style': style, 'text_op': top}
