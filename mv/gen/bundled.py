"""Corpus of repository-bundled workflow definitions (C02's second domain).

Sources, read from the working tree at run time: every *.yaml file under the
repository that holds a v2 workflow list or workbook, every reStructuredText
code block of the user documentation, and every string constant of the unit
tests that parses as such a document (the engine tests carry several hundred
hand-written definitions using features outside the generator's grammar).

A corpus entry is {'src', 'kind': 'wf'|'wb', 'text'}.  Static screening
(`screen`) keeps an entry only when it lies in the property's domain
(deterministic actions and expressions, no conflicting publishes on unordered
tasks, no timers racing results, no forced failure racing a parallel branch);
every exclusion has a reason that is counted in the evidence.
"""
import ast
import hashlib
import os
import re

import yaml

REPO = os.environ.get('VERIF_REPO') or '/repo'

_NONDET = re.compile(
    r'uuid\s*\(|now\s*\(|utcnow|random|created_at|updated_at|started_at|'
    r'finished_at|\.id\b|execution_id|\bid\b\s*[:=]|__execution|'
    r'executions\s*\(|tasks\s*\(|std\.sleep|std\.http|std\.mistral_http|'
    r'std\.ssh|std\.email|std\.javascript|std\.js|std\.wait_ssh')
_GLOBAL = re.compile(r'global\s*:|global\s*\(|publish-global')


def _is_v2(doc):
    if not isinstance(doc, dict):
        return False
    v = doc.get('version')
    return str(v) in ('2.0', '2')


def classify(doc):
    if not _is_v2(doc):
        return None
    if isinstance(doc.get('workflows'), dict) and 'name' in doc:
        return 'wb'
    wfs = [k for k, v in doc.items()
           if k != 'version' and isinstance(v, dict) and 'tasks' in v]
    others = [k for k in doc if k != 'version' and k not in wfs]
    if wfs and not others:
        return 'wf'
    return None


def _try(text):
    if not isinstance(text, str) or 'version' not in text or \
            'tasks' not in text or len(text) > 20000:
        return None
    try:
        doc = yaml.safe_load(text)
    except Exception:
        return None
    k = classify(doc)
    if k is None:
        return None
    return k, doc


def _py_strings(path):
    try:
        tree = ast.parse(open(path, encoding='utf-8').read())
    except Exception:
        return
    for node in ast.walk(tree):
        if isinstance(node, ast.Constant) and isinstance(node.value, str):
            yield node.lineno, node.value


def _rst_blocks(path):
    try:
        lines = open(path, encoding='utf-8').read().splitlines()
    except Exception:
        return
    i = 0
    while i < len(lines):
        ln = lines[i]
        if ln.strip().startswith('.. code-block::') or ln.rstrip().endswith('::'):
            j = i + 1
            while j < len(lines) and (not lines[j].strip()
                                      or lines[j].lstrip().startswith(':')):
                j += 1
            blk = []
            ind = None
            while j < len(lines):
                l2 = lines[j]
                if l2.strip():
                    cur = len(l2) - len(l2.lstrip())
                    if ind is None:
                        ind = cur
                    if cur < ind or ind == 0:
                        break
                blk.append(l2[ind:] if ind else l2)
                j += 1
            if blk:
                yield i + 1, '\n'.join(blk) + '\n'
            i = j
        else:
            i += 1


def collect():
    """All candidate entries, deterministic order, de-duplicated by text."""
    out = []
    seen = set()

    def add(src, text):
        r = _try(text)
        if r is None:
            return
        h = hashlib.sha1(text.encode()).hexdigest()
        if h in seen:
            return
        seen.add(h)
        out.append({'src': src, 'kind': r[0], 'text': text,
                    'h': h[:12]})

    for root, dirs, files in os.walk(REPO):
        dirs[:] = sorted(d for d in dirs
                         if d not in ('.git', '.tox', 'releasenotes',
                                      '__pycache__', 'node_modules'))
        for fn in sorted(files):
            p = os.path.join(root, fn)
            rel = os.path.relpath(p, REPO)
            if fn.endswith(('.yaml', '.yml')):
                try:
                    add(rel, open(p, encoding='utf-8').read())
                except Exception:
                    pass
            elif fn.endswith('.py') and '/tests/' in p:
                for lineno, s in _py_strings(p):
                    add('%s:%s' % (rel, lineno), s)
            elif fn.endswith('.rst'):
                for lineno, s in _rst_blocks(p):
                    add('%s:%s' % (rel, lineno), s)
    return out


# --------------------------------------------------------------------------
# static screening

_CMDS = ('fail', 'succeed', 'pause', 'noop')


def _targets(clause):
    """[(name, guarded)] of an on-* clause in any of its syntaxes."""
    out = []
    if clause is None:
        return out
    if isinstance(clause, str):
        return [(clause.split()[0] if clause.split() else clause, False)]
    if isinstance(clause, dict):
        if 'next' in clause or 'publish' in clause:
            return _targets(clause.get('next'))
        for k, v in clause.items():
            out.append((str(k).split()[0], True))
        return out
    if isinstance(clause, list):
        for it in clause:
            if isinstance(it, str):
                out.append((it.split()[0] if it.split() else it, False))
            elif isinstance(it, dict):
                for k in it:
                    out.append((str(k).split()[0], True))
    return out


def _published(t):
    names = set()
    for key in ('publish', 'publish-on-error', 'publish-on-skip'):
        v = t.get(key)
        if isinstance(v, dict):
            names.update(v)
    for key in ('on-success', 'on-error', 'on-complete', 'on-skip'):
        c = t.get(key)
        if isinstance(c, dict) and isinstance(c.get('publish'), dict):
            for scope in ('branch', 'global', 'atomic'):
                pv = c['publish'].get(scope)
                if isinstance(pv, dict):
                    names.update(pv)
    return names


def screen_wf(name, wf):
    """Reason this workflow is outside C02's domain, or None."""
    tasks = wf.get('tasks')
    if not isinstance(tasks, dict) or not tasks:
        return 'no-tasks'
    defaults = wf.get('task-defaults') or {}
    wtype = wf.get('type', 'direct')
    edges = {n: set() for n in tasks}
    has_cmd_fail = False
    nondirect = False
    for n, t in tasks.items():
        if not isinstance(t, dict):
            return 'odd-task'
        j = t.get('join')
        if j is not None and j != 'all':
            return 'partial-join'
        for pol in ('timeout',):
            if pol in t or pol in defaults or \
                    pol in (t.get('policies') or {}):
                return 'timeout-policy'
        if wtype == 'reverse':
            req = t.get('requires') or []
            if isinstance(req, str):
                req = [req]
            for r in list(req) + list(
                    defaults.get('requires') or []
                    if isinstance(defaults.get('requires'), list) else []):
                if r in edges:
                    edges[r].add(n)
            continue
        for key in ('on-success', 'on-error', 'on-complete', 'on-skip'):
            c = t.get(key)
            if c is None:
                c = defaults.get(key)
            for tgt, _g in _targets(c):
                if tgt in tasks:
                    edges[n].add(tgt)
                elif tgt in ('fail', 'succeed'):
                    has_cmd_fail = True
                elif tgt == 'pause':
                    return 'pause-command'
        if 'pause-before' in t or 'pause-before' in defaults or \
                'pause-before' in (t.get('policies') or {}):
            return 'pause-before'
    # reachability
    reach = {}
    for n in tasks:
        seen = set()
        stack = list(edges[n])
        while stack:
            x = stack.pop()
            if x in seen:
                continue
            seen.add(x)
            stack.extend(edges[x])
        reach[n] = seen
    cyclic = {n for n in tasks if n in reach[n]}
    if cyclic and any(isinstance(tasks[n], dict) and tasks[n].get('join')
                      for n in tasks):
        return 'join-with-cycle'
    # a join reachable from two instances of one inbound task is the known
    # finding's shape: a non-join task with several inbound routes ("merge"
    # task) upstream of a join
    inbound = {n: set() for n in tasks}
    for a, bs in edges.items():
        for b in bs:
            inbound[b].add(a)
    if wtype != 'reverse':
        multi = {n for n in tasks
                 if len(inbound[n]) > 1 and not tasks[n].get('join')}
        joins = {n for n in tasks if tasks[n].get('join')}
        for m in multi:
            if joins & (reach[m] | {m}):
                return 'join-retrigger-shape'
        # a task with several inbound routes that is not a join runs once
        # per route: what each instance sees is fine, but the number of
        # instances is only order-independent when the routes are exclusive;
        # keep them (instances are compared as a multiset).
    pubs = {}
    for n, t in tasks.items():
        for v in _published(t):
            pubs.setdefault(v, set()).add(n)
    for v, ns in pubs.items():
        ns = sorted(ns)
        for i, a in enumerate(ns):
            for b in ns[i + 1:]:
                if a in cyclic or b in cyclic:
                    continue
                if b not in reach[a] and a not in reach[b]:
                    return 'conflicting-publish'
    if has_cmd_fail:
        # a forced completion racing a parallel branch is order dependent in
        # the language itself
        starts = [n for n in tasks if not inbound[n]]
        par = len(starts) > 1 and wtype != 'reverse'
        for n, t in tasks.items():
            k = 0
            for key in ('on-success', 'on-error', 'on-complete'):
                c = t.get(key) if t.get(key) is not None else defaults.get(key)
                k = max(k, len([x for x in _targets(c) if x[0] in tasks]))
            cs = sum(len([x for x in _targets(
                t.get(key) if t.get(key) is not None else defaults.get(key))
                if x[0] in tasks]) for key in ('on-success', 'on-complete'))
            if cs > 1 or k > 1:
                par = True
            if t.get('with-items') is not None:
                par = True
        if par:
            return 'forced-completion-with-parallelism'
    return None


_PAUSE = re.compile(r'\bpause\b|pause-before')


def uses_pause(entry):
    """Pause command / pause-before anywhere (a run then legitimately rests
    in PAUSED until an operator resumes it)."""
    return bool(_PAUSE.search(entry['text']))


def screen(entry):
    """Reason the whole entry is excluded, or None."""
    text = entry['text']
    if _NONDET.search(text):
        return 'nondeterministic-or-external'
    if _GLOBAL.search(text):
        # a global publish read by a concurrent branch is documented as
        # order dependent (wf_lang_v2.rst, "writing and reading global
        # variables"); the generated domain of C02 covers global publishes
        # read downstream only
        return 'global-publish'
    doc = yaml.safe_load(text)
    if entry['kind'] == 'wb':
        wfs = doc.get('workflows') or {}
    else:
        wfs = {k: v for k, v in doc.items() if k != 'version'}
    for n, wf in wfs.items():
        if not isinstance(wf, dict):
            return 'odd-workflow'
        r = screen_wf(n, wf)
        if r:
            return r
    return None


def workflows_of(entry):
    """[(registered name, spec dict)] of the entry's workflows."""
    doc = yaml.safe_load(entry['text'])
    if entry['kind'] == 'wb':
        return [('%s.%s' % (doc['name'], n), wf)
                for n, wf in (doc.get('workflows') or {}).items()]
    return [(n, wf) for n, wf in doc.items() if n != 'version']


def required_inputs(wf):
    out = []
    for it in wf.get('input') or []:
        if isinstance(it, str):
            out.append(it)
    return out


GUESSES = ('v', 2, ['a', 'b', 'c'], {'k': 'v'}, True)
