"""A tiny drawing interface so generators run under Hypothesis or a PRNG."""
import random


class Draw(object):
    def int(self, lo, hi):
        raise NotImplementedError

    def bool(self, p=0.5):
        # lower values are "simpler": False shrinks first
        return self.int(0, 99) < int(p * 100)

    def choice(self, seq):
        seq = list(seq)
        return seq[self.int(0, len(seq) - 1)]

    def subset(self, seq, lo=0, hi=None):
        seq = list(seq)
        hi = len(seq) if hi is None else min(hi, len(seq))
        lo = min(lo, hi)
        k = self.int(lo, hi)
        pool = list(seq)
        out = []
        for _ in range(k):
            i = self.int(0, len(pool) - 1)
            out.append(pool.pop(i))
        return out

    def perm(self, seq):
        return self.subset(seq, len(seq), len(seq))


class HDraw(Draw):
    """Backed by a Hypothesis `draw` function."""

    def __init__(self, draw):
        from hypothesis import strategies as st
        self._draw = draw
        self._st = st

    def int(self, lo, hi):
        if hi <= lo:
            return lo
        return self._draw(self._st.integers(lo, hi))


class RDraw(Draw):
    def __init__(self, seed):
        self.r = random.Random(seed)

    def int(self, lo, hi):
        if hi <= lo:
            return lo
        return self.r.randint(lo, hi)
