"""Workflow generators (DESIGN.md 2.3).

Programs are built by construction as a small IR (plain dicts, JSON
serialisable, so a case can be stored in a replay file) and rendered to
YAML text that goes through the real parser/validator.

IR
  prog = {name, type: direct|reverse, input: {var: default}, lang: yaql|jinja,
          defaults: {on-success|on-error|on-complete: [edge]} | None,
          tasks: {tname: task}, order: [tname...], output: {k: var} | None,
          target: tname (reverse)}
  task = {join: None|'all'|'one'|int, on-success|on-error|on-complete: [edge],
          publish: {var: val}, publish-on-error: {var: val},
          requires: [tname] (reverse), form: {...rendering choices}}
  edge = {to: tname|fail|succeed|noop|pause, guard: None|[op, ...], msg: s}
  guard = ['flag', var] | ['nflag', var] | ['res', value] | ['nres', value]
          | ['lt', var, K]
  outcomes = {tname: [outcome, ...]} (k-th instance of the task; last
             repeats), outcome = ['ok', value] | ['err', msg]
"""
import copy

import yaml

ENGINE_CMDS = ('fail', 'succeed', 'noop', 'pause')

DEFAULT_FEATS = {
    'joins': True, 'partial_joins': True, 'error_routes': True,
    'complete_routes': True, 'guards': True, 'commands': True,
    'defaults': True, 'publish': True, 'multi_start': True,
    'jinja': True, 'pause_cmd': False, 'cycles': True,
    'expr_failures': True, 'state_commands': True,
}


def feats(**kw):
    f = dict(DEFAULT_FEATS)
    f.update(kw)
    return f


def new_task():
    return {'join': None, 'on-success': [], 'on-error': [],
            'on-complete': [], 'publish': {}, 'publish-on-error': {},
            'form': {}}


# --------------------------------------------------------------------------
# generation: direct workflows

def gen_direct(D, F=None, max_tasks=8, prefix='t', name='wf'):
    """Returns (prog, outcomes)."""
    F = F or DEFAULT_FEATS
    n = D.int(2, max_tasks)
    names = ['%s%d' % (prefix, i) for i in range(n)]
    prog = {'name': name, 'type': 'direct', 'tasks': {}, 'order': names,
            'input': {}, 'defaults': None, 'output': None,
            'lang': 'jinja' if (F['jinja'] and D.bool(0.3)) else 'yaql'}
    for nm in names:
        prog['tasks'][nm] = new_task()
    # inputs (flags with defaults; the run may override them)
    nflags = D.int(0, 2) if F['guards'] else 0
    for i in range(nflags):
        prog['input']['f%d' % i] = D.bool(0.5)

    # outcomes first, so that the shape can be built knowing what fires
    outcomes = {}
    for nm in names:
        r = D.int(0, 19)
        if r < 14:
            outcomes[nm] = [['ok', 'a']]
        elif r < 16:
            outcomes[nm] = [['ok', 'b']]
        else:
            outcomes[nm] = [['err', 'boom-%s' % nm]]

    def fires_static(src, clause, guard):
        """Would this edge fire, given outcomes and default input?"""
        oc = outcomes[src][0]
        st = 'SUCCESS' if oc[0] == 'ok' else 'ERROR'
        if clause == 'on-success' and st != 'SUCCESS':
            return False
        if clause == 'on-error' and st != 'ERROR':
            return False
        return eval_guard(guard, prog['input'], oc[1] if oc[0] == 'ok'
                          else None)

    def draw_clause():
        opts = ['on-success'] * 5
        if F['error_routes']:
            opts += ['on-error'] * 2
        if F['complete_routes']:
            opts += ['on-complete'] * 2
        return D.choice(opts)

    def draw_guard(src):
        if not F['guards'] or not D.bool(0.3):
            return None
        kinds = ['res', 'nres']
        if prog['input']:
            kinds += ['flag', 'nflag']
        k = D.choice(kinds)
        if k in ('flag', 'nflag'):
            return [k, D.choice(sorted(prog['input']))]
        return [k, D.choice(['a', 'b'])]

    def add_edge(src, dst, clause=None, guard='draw'):
        t = prog['tasks'][src]
        for c in ('on-success', 'on-error', 'on-complete'):
            if any(e['to'] == dst for e in t[c]):
                return None
        clause = clause or draw_clause()
        g = draw_guard(src) if guard == 'draw' else guard
        e = {'to': dst, 'guard': g}
        t[clause].append(e)
        return (clause, e)

    for i in range(1, n):
        nm = names[i]
        r = D.int(0, 9)
        if F['multi_start'] and r == 9:
            continue                      # another start task
        if F['joins'] and i >= 2 and r >= 6:
            k = D.int(1, min(4, i))
            srcs = sorted(D.subset(range(i), k, k))
            prev_joins = [j for j in range(i)
                          if prog['tasks'][names[j]]['join'] is not None]
            if prev_joins and D.bool(0.4):
                # chained joins: an earlier join feeds this one
                pj = D.choice(prev_joins)
                if pj not in srcs:
                    srcs[D.int(0, len(srcs) - 1)] = pj
                    srcs = sorted(set(srcs))
            jt = 'all'
            if F['partial_joins'] and D.bool(0.45):
                jt = D.choice(['one', D.int(1, len(srcs))])
            prog['tasks'][nm]['join'] = jt
            added = []
            for s in srcs:
                added.append((names[s], add_edge(names[s], nm)))
            card = None if jt == 'all' else (1 if jt == 'one' else jt)
            if D.bool(0.15):
                # dead join: no inbound route fires, the join is never
                # instantiated (joins downstream of it must notice)
                for s_, a in added:
                    if a and fires_static(s_, a[0], a[1]['guard']):
                        oc = outcomes[s_][0]
                        t = prog['tasks'][s_]
                        t[a[0]].remove(a[1])
                        if F['error_routes'] and D.bool(0.5):
                            newc = 'on-error' if oc[0] == 'ok' \
                                else 'on-success'
                        else:
                            newc = 'on-success' if oc[0] == 'ok' \
                                else 'on-error'
                            a[1]['guard'] = ['res', 'zz']
                        t[newc].append(a[1])
            elif card is not None and D.bool(0.7):
                # keep the number of firing inbound routes at the join's
                # cardinality: surplus routes are made non-firing.
                firing = [(s, a) for s, a in added if a and
                          fires_static(s, a[0], a[1]['guard'])]
                for s, a in firing[card:]:
                    oc = outcomes[s][0]
                    t = prog['tasks'][s]
                    t[a[0]].remove(a[1])
                    newc = 'on-error' if oc[0] == 'ok' else 'on-success'
                    if not F['error_routes']:
                        newc = 'on-success'
                        a[1]['guard'] = ['res', 'zz']
                    t[newc].append(a[1])
        else:
            add_edge(names[D.int(0, i - 1)], nm)

    # engine commands
    if F['commands']:
        ncmd = D.int(0, 2) if D.bool(0.5) else 0
        for _ in range(ncmd):
            src = D.choice(names)
            clause = draw_clause()
            cmds = ['fail', 'succeed', 'noop']
            if not F.get('state_commands', True):
                cmds = ['noop']
            if F['pause_cmd']:
                cmds.append('pause')
            cmd = D.choice(cmds)
            lst = prog['tasks'][src][clause]
            if any(e['to'] == cmd for e in lst):
                continue
            e = {'to': cmd, 'guard': draw_guard(src)}
            if cmd in ('fail', 'succeed', 'pause') and D.bool(0.5):
                e['msg'] = 'm %s %s' % (src, cmd)
            lst.insert(D.int(0, len(lst)), e)

    # task-defaults: an error handler shared by tasks without own on-error
    if F['defaults'] and D.bool(0.25):
        h = 'h'
        prog['tasks'][h] = new_task()
        prog['order'] = names + [h]
        outcomes[h] = [['ok', 'a']]
        prog['defaults'] = {'on-error': [{'to': h, 'guard': None}]}
        if D.bool(0.3):
            prog['defaults']['on-complete'] = [{'to': 'noop', 'guard': None}]

    # publish: one variable per task (no conflicts), visible in the output
    if F['publish']:
        pubs = []
        for nm in prog['order']:
            if D.bool(0.4):
                prog['tasks'][nm]['publish']['p_%s' % nm] = 'tok-%s' % nm
                pubs.append('p_%s' % nm)
            if D.bool(0.15):
                prog['tasks'][nm]['publish-on-error']['e_%s' % nm] = \
                    'etok-%s' % nm
                pubs.append('e_%s' % nm)
        if pubs and D.bool(0.7):
            prog['output'] = {'o_%s' % v: v for v in pubs}

    # bounded cycle: P -> l0 -> [l1] -> (l0 while c < K | lx when c >= K)
    if F.get('cycles') and D.bool(0.15):
        prog['lang'] = 'yaql'
        K = D.int(1, 3)
        pi = D.int(0, n - 1)
        P = names[pi]
        body = ['l0'] + (['l1'] if D.bool(0.5) else [])
        for nm in body + ['lx']:
            prog['tasks'][nm] = new_task()
            outcomes[nm] = [['ok', 'a']]
        if D.bool(0.15):
            outcomes[body[-1]] = [['err', 'boom-loop']]
        prog['order'] = prog['order'] + body + ['lx']
        add_edge(P, 'l0')
        prog['tasks']['l0']['publish']['c'] = ['inc', 'c']
        if len(body) == 2:
            prog['tasks']['l0']['on-success'].append(
                {'to': 'l1', 'guard': None})
        last = prog['tasks'][body[-1]]
        last['on-success'].append({'to': 'l0', 'guard': ['lt', 'c', K]})
        last['on-success'].append({'to': 'lx', 'guard': ['ge', 'c', K]})
        later_joins = [names[j] for j in range(pi + 1, n)
                       if prog['tasks'][names[j]]['join'] is not None]
        if later_joins and D.bool(0.6):
            J = D.choice(later_joins)
            prog['tasks']['lx']['on-success'].append(
                {'to': J, 'guard': None})
            jt = prog['tasks'][J]['join']
            if isinstance(jt, int):
                pass
        prog['has_cycle'] = True

    # failing expressions (syntactically valid, fail when evaluated)
    if F.get('expr_failures') and D.bool(0.12):
        kind = D.choice(['publish', 'guard', 'input', 'output',
                         'publish-on-error'])
        nm = D.choice(prog['order'])
        if kind == 'output':
            prog['bad_output'] = True
            if not prog.get('output'):
                prog['output'] = {}
        elif kind == 'guard':
            cl = draw_clause()
            prog['tasks'][nm][cl].insert(
                D.int(0, len(prog['tasks'][nm][cl])),
                {'to': 'noop', 'guard': ['bad']})
        else:
            prog['tasks'][nm]['bad'] = kind

    # with-items
    if F.get('with_items') and D.bool(0.5):
        nm = D.choice(names)
        k = D.int(0, 4)
        t = prog['tasks'][nm]
        t['with-items'] = 'i in <% [' + ', '.join(
            str(x) for x in range(k)) + '] %>'
        t['action'] = 'std.echo output=<% $.i %>'
        if D.bool(0.6):
            t['concurrency'] = D.int(1, 3)
        items = {}
        for i in range(k):
            if D.bool(0.2):
                items[str(i)] = ['err', 'item-%d' % i]
        base = outcomes[nm][0]
        if items:
            outcomes[nm] = [['items', items, ['ok', 'a']]]
        elif base[0] == 'err':
            outcomes[nm] = [['items', {'0': base}, ['ok', 'a']]]
        t['n_items'] = k

    # asynchronous actions (complete only through an operator command)
    if F.get('async_actions'):
        for nm in names:
            if D.bool(F.get('async_p', 0.15)) and \
                    not prog['tasks'][nm].get('with-items'):
                outcomes[nm] = [['never']]
                prog['tasks'][nm]['action'] = 'std.async_noop'
                if F.get('async_timeout_p') and \
                        D.bool(F['async_timeout_p']):
                    # the task times out (ERROR) while its action is still
                    # running: later updates / results of that action are
                    # late for a finished task
                    prog['tasks'][nm]['timeout'] = D.int(1, 3)

    # rendering forms
    for nm in prog['order']:
        prog['tasks'][nm]['form'] = {
            'single_as_string': D.bool(0.5), 'adv': D.bool(0.2),
            'action': D.choice(['noop', 'echo', 'none'])}
    return prog, outcomes


# --------------------------------------------------------------------------
# generation: focused fork/join shapes

def gen_joinshape(D, F=None):
    """Parallel branches feeding one or two (chained) joins, with routes
    that fire or stay dead.  Returns (prog, outcomes)."""
    F = F or DEFAULT_FEATS
    prog = {'name': 'wf', 'type': 'direct', 'tasks': {}, 'order': [],
            'input': {'f0': False}, 'defaults': None, 'output': None,
            'lang': 'jinja' if (F['jinja'] and D.bool(0.25)) else 'yaql'}
    outcomes = {}

    def add(nm, oc=None):
        prog['tasks'][nm] = new_task()
        prog['order'].append(nm)
        outcomes[nm] = [oc or ['ok', 'a']]
        return nm

    m = D.int(2, 4)
    forked = D.bool(0.5)
    if forked:
        add('r')
    ends = []
    for i in range(m):
        b = add('b%d' % i, ['err', 'boom'] if D.bool(0.15) else None)
        if forked:
            prog['tasks']['r']['on-success'].append({'to': b, 'guard': None})
        end = b
        if D.bool(0.4):
            c = add('b%d_2' % i)
            cl = 'on-complete' if D.bool(0.3) else (
                'on-success' if outcomes[b][0][0] == 'ok' else 'on-error')
            prog['tasks'][b][cl].append({'to': c, 'guard': None})
            end = c
        ends.append(end)

    def route(src, dst, fires):
        ok = outcomes[src][0][0] == 'ok'
        if fires:
            cl = D.choice(['on-success' if ok else 'on-error', 'on-complete'])
            g = None
            if D.bool(0.2):
                g = ['nflag', 'f0']
        else:
            mode = D.int(0, 2)
            if mode == 0:
                cl, g = ('on-error' if ok else 'on-success'), None
            elif mode == 1:
                cl, g = ('on-success' if ok else 'on-error'), ['flag', 'f0']
            else:
                cl, g = 'on-complete', ['flag', 'f0']
        prog['tasks'][src][cl].append({'to': dst, 'guard': g})

    def mkjoin(nm, srcs, extra=None):
        add(nm, ['err', 'boom'] if D.bool(0.1) else None)
        k = len(srcs) + (1 if extra else 0)
        jt = 'all'
        if F.get('partial_joins', True) and D.bool(0.4):
            jt = D.choice(['one', D.int(1, k)])
        prog['tasks'][nm]['join'] = jt
        dead_all = D.bool(0.25)
        for s_ in srcs:
            route(s_, nm, (not dead_all) and D.bool(0.75))
        if extra:
            prog['tasks'][extra]['on-success'].append(
                {'to': nm, 'guard': None})

    k1 = D.int(1, max(1, m - 1))
    s1 = D.subset(ends, k1, k1)
    mkjoin('j1', s1)
    last = 'j1'
    if D.bool(0.7):
        rest = [e for e in ends if e not in s1] or ends
        k2 = D.int(1, len(rest))
        s2 = D.subset(rest, k2, k2)
        mkjoin('j2', s2, extra='j1')
        last = 'j2'
    if D.bool(0.5):
        add('tail')
        prog['tasks'][last][D.choice(['on-success', 'on-complete'])].append(
            {'to': 'tail', 'guard': None})
    if D.bool(0.3):
        prog['tasks'][last]['on-error'].append({'to': 'noop', 'guard': None})
    for nm in prog['order']:
        prog['tasks'][nm]['form'] = {
            'single_as_string': D.bool(0.5), 'adv': D.bool(0.2),
            'action': D.choice(['noop', 'echo', 'none'])}
    return prog, outcomes


# --------------------------------------------------------------------------
# generation: reverse workflows

def gen_reverse(D, F=None, max_tasks=8):
    F = F or DEFAULT_FEATS
    n = D.int(2, max_tasks)
    names = ['r%d' % i for i in range(n)]
    prog = {'name': 'wf', 'type': 'reverse', 'tasks': {}, 'order': names,
            'input': {}, 'defaults': None, 'output': None, 'lang': 'yaql'}
    outcomes = {}
    for i, nm in enumerate(names):
        t = new_task()
        t['requires'] = [names[j] for j in sorted(D.subset(range(i), 0,
                                                            min(3, i)))]
        t['form'] = {'req_as_string': D.bool(0.3),
                     'action': D.choice(['noop', 'echo', 'none'])}
        prog['tasks'][nm] = t
        outcomes[nm] = [['ok', 'a']] if D.int(0, 9) < 8 else \
            [['err', 'boom-%s' % nm]]
        if F['publish'] and D.bool(0.4):
            t['publish']['p_%s' % nm] = 'tok-%s' % nm
    prog['target'] = D.choice(names)
    if F['defaults'] and D.bool(0.15):
        prog['defaults'] = {'requires': [names[0]]}
    pubs = [v for nm in names for v in prog['tasks'][nm]['publish']]
    if pubs and D.bool(0.7):
        prog['output'] = {'o_%s' % v: v for v in pubs}
    return prog, outcomes


# --------------------------------------------------------------------------
# guards

class ExprFailure(Exception):
    """A generated expression that fails when evaluated."""


def eval_guard(g, data, result):
    """Reference evaluation of the generated guard forms (never YAQL)."""
    if g is None:
        return True
    op = g[0]
    if op == 'flag':
        return bool(data.get(g[1]))
    if op == 'nflag':
        return not bool(data.get(g[1]))
    if op == 'res':
        return result == g[1]
    if op == 'nres':
        return result != g[1]
    if op == 'lt':
        return (data.get(g[1]) or 0) < g[2]
    if op == 'ge':
        return (data.get(g[1]) or 0) >= g[2]
    if op == 'bad':
        raise ExprFailure()
    raise ValueError(g)


def render_guard(g, lang):
    op = g[0]
    if lang == 'yaql':
        if op == 'flag':
            return '<%% $.%s %%>' % g[1]
        if op == 'nflag':
            return '<%% not $.%s %%>' % g[1]
        if op == 'res':
            return "<%% task().result = '%s' %%>" % g[1]
        if op == 'nres':
            return "<%% task().result != '%s' %%>" % g[1]
        if op == 'lt':
            return '<%% $.get(%s, 0) < %d %%>' % (g[1], g[2])
        if op == 'ge':
            return '<%% $.get(%s, 0) >= %d %%>' % (g[1], g[2])
        if op == 'bad':
            return '<% 1 / 0 > 0 %>'
    else:
        if op == 'flag':
            return '{{ _.%s }}' % g[1]
        if op == 'nflag':
            return '{{ not _.%s }}' % g[1]
        if op == 'res':
            return "{{ task().result == '%s' }}" % g[1]
        if op == 'nres':
            return "{{ task().result != '%s' }}" % g[1]
        if op == 'lt':
            return '{{ _.%s < %d }}' % (g[1], g[2])
        if op == 'bad':
            return '{{ 1 / 0 > 0 }}'
    raise ValueError(g)


# --------------------------------------------------------------------------
# rendering

def _render_edge(e, lang):
    to = e['to']
    if e.get('msg') is not None:
        to = '%s(msg="%s")' % (to, e['msg']) if len(e['msg']) % 2 else \
            '%s msg="%s"' % (to, e['msg'])
    if e.get('guard') is not None:
        return {to: render_guard(e['guard'], lang)}
    return to


def _render_clause(edges, form, lang, tpub=None):
    items = [_render_edge(e, lang) for e in edges]
    if len(items) == 1 and form.get('single_as_string') \
            and isinstance(items[0], str):
        nxt = items[0]
    else:
        nxt = items
    if form.get('adv') or tpub:
        d = {'next': nxt}
        if tpub:
            d['publish'] = tpub
        return d
    return nxt


def _render_value(v, lang):
    if isinstance(v, list) and v and v[0] == 'inc':
        if lang == 'yaql':
            return '<%% $.get(%s, 0) + 1 %%>' % v[1]
        return "{{ _.get('%s', 0) + 1 }}" % v[1]
    return v


def render_task(prog, nm):
    t = prog['tasks'][nm]
    lang = prog['lang']
    form = t.get('form', {})
    d = {}
    act = form.get('action', 'noop')
    if t.get('workflow'):
        d['workflow'] = t['workflow']
        if t.get('input'):
            d['input'] = t['input']
    elif t.get('action'):
        d['action'] = t['action']
        if t.get('input'):
            d['input'] = t['input']
    elif act == 'noop':
        d['action'] = 'std.noop'
    elif act == 'echo_bare':
        # no input at all: the parameters come from the environment's
        # action defaults (env: {__actions: {std.echo: {output: ...}}})
        d['action'] = 'std.echo'
    elif act == 'echo':
        d['action'] = 'std.echo output="x"'
    if t.get('join') is not None:
        d['join'] = t['join']
    if t.get('with-items'):
        d['with-items'] = t['with-items']
    if t.get('concurrency') is not None:
        d['concurrency'] = t['concurrency']
    for k in ('retry', 'wait-before', 'wait-after', 'timeout', 'pause-before',
              'fail-on', 'keep-result', 'safe-rerun'):
        if t.get(k) is not None:
            d[k] = t[k]
    if t.get('requires'):
        r = t['requires']
        d['requires'] = r[0] if (len(r) == 1 and form.get('req_as_string')) \
            else list(r)
    bad_expr = '<% 1 / 0 %>' if lang == 'yaql' else '{{ 1 / 0 }}'
    if t.get('publish') or t.get('bad') == 'publish':
        d['publish'] = {k: _render_value(v, lang)
                        for k, v in t['publish'].items()}
        if t.get('bad') == 'publish':
            d['publish']['zz_bad'] = bad_expr
    if t.get('publish-on-error') or t.get('bad') == 'publish-on-error':
        d['publish-on-error'] = {k: _render_value(v, lang) for k, v in
                                 t['publish-on-error'].items()}
        if t.get('bad') == 'publish-on-error':
            d['publish-on-error']['zz_bad'] = bad_expr
    if t.get('bad') == 'input' and not t.get('workflow'):
        d['action'] = 'std.echo'
        d['input'] = {'output': bad_expr}
    if t.get('publish-on-skip'):
        d['publish-on-skip'] = dict(t['publish-on-skip'])
    if t.get('on-skip'):
        d['on-skip'] = _render_clause(t['on-skip'], form, lang)
    for c in ('on-success', 'on-error', 'on-complete'):
        tp = (t.get('tpublish') or {}).get(c)
        if t.get(c):
            d[c] = _render_clause(t[c], form, lang, tp)
        elif tp:
            # a transition that only publishes ('next' is optional)
            d[c] = {'publish': tp}
    if not d:
        d['action'] = 'std.noop'
    return d


def render(prog, wrap=True):
    wf = {}
    if prog['type'] == 'reverse':
        wf['type'] = 'reverse'
    elif prog.get('explicit_type'):
        wf['type'] = 'direct'
    if prog.get('input'):
        wf['input'] = [{k: v} for k, v in sorted(prog['input'].items())]
    if prog.get('extra_input'):
        wf['input'] = (wf.get('input') or []) + list(prog['extra_input'])
    if prog.get('vars'):
        wf['vars'] = prog['vars']
    if prog.get('output'):
        if prog['lang'] == 'jinja':
            wf['output'] = {k: "{{ _.get('%s', 'none') }}" % v
                            for k, v in prog['output'].items()}
        else:
            wf['output'] = {k: "<%% $.get(%s, none) %%>" % v
                            for k, v in prog['output'].items()}
    if prog.get('bad_output'):
        wf.setdefault('output', {})['zz_bad'] = \
            '<% 1 / 0 %>' if prog['lang'] == 'yaql' else '{{ 1 / 0 }}'
    if prog.get('output_raw'):
        wf['output'] = prog['output_raw']
    d = prog.get('defaults')
    if d:
        td = {}
        for c in ('on-success', 'on-error', 'on-complete'):
            if d.get(c):
                td[c] = _render_clause(d[c], {}, prog['lang'])
        if d.get('requires'):
            td['requires'] = list(d['requires'])
        for k in ('retry', 'wait-before', 'wait-after', 'timeout',
                  'pause-before'):
            if d.get(k) is not None:
                td[k] = d[k]
        wf['task-defaults'] = td
    wf['tasks'] = {}
    for nm in prog['order']:
        wf['tasks'][nm] = render_task(prog, nm)
    doc = {'version': '2.0', prog['name']: wf}
    return yaml.safe_dump(doc, default_flow_style=False, sort_keys=False)


def gen_nested(D, F=None, max_tasks=6):
    """A parent workflow whose tasks may call generated sub-workflows.
    Returns (prog, outcomes) where prog['subs'] lists the child programs."""
    F = dict(F or DEFAULT_FEATS)
    parent, outc = gen_direct(D, F, max_tasks)
    nsubs = D.int(1, 2)
    subs = []
    FS = dict(F, cycles=False, defaults=False, expr_failures=False,
              with_items=False)
    for i in range(nsubs):
        sp, so = gen_direct(D, FS, 3, prefix='s%d_' % i, name='sub%d' % i)
        sp['output'] = None
        subs.append(sp)
        outc.update(so)
    # depth 2: sub0 may call sub1
    if nsubs == 2 and D.bool(0.3):
        nm = D.choice(subs[0]['order'])
        subs[0]['tasks'][nm]['workflow'] = 'sub1'
    cands = [nm for nm in parent['order']
             if not parent['tasks'][nm].get('bad')
             and (F.get('wi_subwf', True)
                  or not parent['tasks'][nm].get('with-items'))]
    if not cands:
        parent['subs'] = subs
        return parent, outc
    k = D.int(1, min(2, len(cands)))
    for nm in D.subset(cands, k, k):
        parent['tasks'][nm]['workflow'] = 'sub%d' % D.int(0, nsubs - 1)
        parent['tasks'][nm].pop('action', None)
        if parent['tasks'][nm].get('with-items'):
            parent['tasks'][nm]['with-items'] = \
                parent['tasks'][nm]['with-items']
    parent['subs'] = subs
    return parent, outc


def render_all(prog):
    """Render a program together with its sub-workflows."""
    import yaml as _y
    doc = _y.safe_load(render(prog))
    for sp in prog.get('subs') or []:
        d = _y.safe_load(render(sp))
        d.pop('version')
        doc.update(d)
    return _y.safe_dump(doc, default_flow_style=False, sort_keys=False)


def canonical(prog):
    p = copy.deepcopy(prog)
    return p


def tags(prog, outcomes=None):
    tg = set()
    tg.add(prog['type'])
    tg.add('lang_' + prog['lang'])
    outdeg = {}
    for nm, t in prog['tasks'].items():
        if t.get('join') is not None:
            tg.add('has_join')
            if t['join'] != 'all':
                tg.add('has_partial_join')
        n = 0
        for c in ('on-success', 'on-error', 'on-complete'):
            for e in t.get(c, []):
                if e['to'] in ENGINE_CMDS:
                    tg.add('has_command')
                    tg.add('cmd_' + e['to'])
                else:
                    n += 1
                if e.get('guard') is not None:
                    tg.add('has_guard')
                if c == 'on-error':
                    tg.add('has_error_route')
                if c == 'on-complete':
                    tg.add('has_complete_route')
        outdeg[nm] = n
        if n >= 2:
            tg.add('has_fork')
        if t.get('publish') or t.get('publish-on-error'):
            tg.add('has_publish')
        if t.get('requires'):
            tg.add('has_requires')
    if prog.get('defaults'):
        tg.add('has_defaults')
    if prog.get('has_cycle'):
        tg.add('has_cycle')
    if prog.get('bad_output') or any(
            t.get('bad') for t in prog['tasks'].values()) or any(
            (e.get('guard') or [None])[0] == 'bad'
            for t in prog['tasks'].values()
            for c in ('on-success', 'on-error', 'on-complete')
            for e in t.get(c, [])):
        tg.add('has_expr_failure')
    if prog['type'] == 'direct':
        starts = [nm for nm in prog['order'] if not inbound(prog, nm)]
        if len(starts) >= 2:
            tg.add('has_fork')
            tg.add('multi_start')
    if outcomes and any(o[0][0] == 'err' for o in outcomes.values()):
        tg.add('has_failing_task')
    if outcomes and prog['type'] == 'direct':
        dead = set()
        for nm, t in prog['tasks'].items():
            if t.get('join') is None:
                continue
            ins = inbound(prog, nm)
            if ins and not any(static_route(prog, outcomes, s_, nm)
                               for s_ in ins):
                dead.add(nm)
        if dead:
            tg.add('has_dead_join')
        for nm, t in prog['tasks'].items():
            if t.get('join') is not None and nm not in dead and \
                    any(s_ in dead for s_ in inbound(prog, nm)):
                tg.add('dead_join_feeds_join')
    return sorted(tg)


def static_route(prog, outcomes, src, dst):
    """Would src route to dst given its (first) outcome and the default
    input?  (Static approximation used for generator statistics.)"""
    oc = (outcomes.get(src) or [['ok', 'a']])[0]
    if oc[0] not in ('ok', 'err'):
        return True
    st = 'SUCCESS' if oc[0] == 'ok' else 'ERROR'
    res = oc[1] if oc[0] == 'ok' else None
    cl = ['on-success' if st == 'SUCCESS' else 'on-error', 'on-complete']
    for c in cl:
        for e in clause_of(prog, src, c):
            if e['to'] == dst:
                try:
                    if eval_guard(e.get('guard'), prog.get('input') or {},
                                  res):
                        return True
                except ExprFailure:
                    pass
    return False


def clause_of(prog, nm, c):
    """Effective clause: own entries, else task-defaults minus self."""
    own = prog['tasks'][nm].get(c) or []
    if own:
        return own
    d = prog.get('defaults') or {}
    return [e for e in (d.get(c) or []) if e['to'] != nm]


def inbound(prog, nm):
    """Names of tasks having any effective clause entry naming nm."""
    out = []
    for src in prog['order']:
        for c in ('on-success', 'on-error', 'on-complete'):
            if any(e['to'] == nm for e in clause_of(prog, src, c)):
                out.append(src)
                break
    return out
