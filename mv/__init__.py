"""Property-based verification machinery for openstack/mistral (see DESIGN.md)."""
