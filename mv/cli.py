"""./check <ID> [--tier quick|thorough] [--replay FILE]"""
import argparse
import importlib
import os
import sys
import traceback


def main(argv=None):
    ap = argparse.ArgumentParser()
    ap.add_argument('prop')
    ap.add_argument('--tier', default=os.environ.get('VERIF_TIER', 'quick'),
                    choices=['quick', 'thorough'])
    ap.add_argument('--replay')
    ap.add_argument('--seed', type=int)
    ap.add_argument('--regress-only', action='store_true',
                    help='replay the saved regression inputs and stop')
    a = ap.parse_args(argv)
    from mv import runner
    seed = a.seed if a.seed is not None else runner.seed_from_env()
    prop = a.prop.upper()
    try:
        mod = importlib.import_module('mv.props.%s' % prop.lower())
        if a.replay:
            viol = mod.replay(a.replay)
            if viol:
                print('VIOLATION property=%s replay=%s' % (prop, a.replay))
                for v in viol[:3]:
                    print('  detail: %s' % str(v)[:1500])
                return 1
            print('%s replay passed' % prop)
            return 0
        n, bad, herr = runner.run_regress(prop, 'mv.props.%s' % prop.lower())
        if bad:
            # a saved input of a repaired defect / sensitivity mutant fails
            # again: reported with the saved file as replay
            for path, v in bad[:3]:
                print('VIOLATION property=%s replay=%s' % (prop, path))
                print('  detail: %s' % str(v)[:1200])
            return 1
        if herr:
            print('HARNESS-ERROR property=%s regression tier: %s' % (
                prop, herr[0][-1500:]))
            return 2
        os.environ['VERIF_REGRESS_N'] = str(n)
        if a.regress_only:
            print('%s regression tier: %d saved inputs replayed, all pass'
                  % (prop, n))
            return 0
        return mod.main(a.tier, seed)
    except SystemExit:
        raise
    except BaseException as e:  # noqa
        print('HARNESS-ERROR property=%s %s: %s' % (prop, type(e).__name__, e))
        traceback.print_exc()
        return 2


if __name__ == '__main__':
    sys.exit(main())
