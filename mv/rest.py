"""restprobe: the real pecan WSGI app over simworld (DESIGN.md 2.6).

The acting context is injected by replacing MistralContext.from_environ;
policy rules are denied at run time on the real oslo.policy enforcer; the
engine RPC client is the simworld bus, so engine calls made by controllers
are recorded (and executed by the real engine).
"""
import inspect
import json
import re

from mv import sim

APP = None
ACTING = {'ctx': None}
_ORIG_RULES = {}


def make_ctx(project, admin=False, user=None):
    roles = ['admin'] if admin else ['member']
    return sim.auth_context.MistralContext.from_dict({
        'user_name': user or ('u-' + project), 'user': user or
        ('uid-' + project), 'tenant': project, 'project_id': project,
        'project_name': project, 'is_admin': admin, 'roles': roles})


def boot(auth_enable=False, scheduler_type='default'):
    global APP
    sim.boot(scheduler_type, auth_enable=auth_enable)
    if APP is not None:
        return APP
    import pecan
    import pecan.testing
    from oslo_policy import opts as policy_opts
    from oslo_policy import policy as oslo_policy
    from mistral.api import app as pecan_app
    from mistral.api import access_control as acl
    from mistral import policies
    from mistral import context as mctx
    CONF = sim.CONF
    CONF.set_override('enabled', False, group='cron_trigger')
    if auth_enable:
        CONF.set_override('auth_type', 'keycloak-oidc')
        from mistral import auth

        class StubAuth(object):
            def authenticate(self, req):
                return None
        if not hasattr(auth, '_IMPL_AUTH_HANDLER'):
            raise sim.HarnessError('auth._IMPL_AUTH_HANDLER missing')
        auth._IMPL_AUTH_HANDLER = StubAuth()
        # trusts need keystone: stub them
        from mistral.services import security

        def add_trust_id(values):
            values.update({'trust_id': 'trust-' + values.get('name', 'x')})
        security.add_trust_id = add_trust_id
        security.delete_trust = lambda trust_id=None: None
    if not hasattr(mctx.MistralContext, 'from_environ'):
        raise sim.HarnessError('MistralContext.from_environ missing')

    def from_environ(cls, headers, env):
        c = ACTING['ctx']
        return c
    mctx.MistralContext.from_environ = classmethod(from_environ)
    policy_opts.set_defaults(CONF)
    acl._ENFORCER = oslo_policy.Enforcer(CONF)
    acl._ENFORCER.register_defaults(policies.list_rules())
    acl._ENFORCER.load_rules()
    # event engine client: triggers talk to it synchronously
    from mistral.rpc import clients as rpc_clients

    class StubEventEngine(object):
        def __init__(self):
            self.calls = []

        def create_event_trigger(self, trigger, events):
            self.calls.append(('create', trigger.get('id')))

        def delete_event_trigger(self, trigger, events):
            self.calls.append(('delete', trigger.get('id')))

        def update_event_trigger(self, trigger):
            self.calls.append(('update', trigger.get('id')))
    rpc_clients._EVENT_ENGINE_CLIENT = StubEventEngine()
    rpc_clients.get_event_engine_client = \
        lambda: rpc_clients._EVENT_ENGINE_CLIENT
    APP = pecan.testing.load_test_app(dict(pecan_app.get_pecan_config()))
    return APP


def rules():
    from mistral.api import access_control as acl
    return acl._ENFORCER.rules


def deny(names):
    """Deny the named rules ('*' = all registered rules)."""
    from oslo_policy import policy as oslo_policy
    r = rules()
    if names == '*':
        names = [n for n in list(r) if ':' in n]
    for n in names:
        if n not in _ORIG_RULES:
            _ORIG_RULES[n] = r.get(n)
        r[n] = oslo_policy.RuleDefault(n, '!').check


def allow(names):
    from oslo_policy import policy as oslo_policy
    r = rules()
    for n in names:
        if n not in _ORIG_RULES:
            _ORIG_RULES[n] = r.get(n)
        r[n] = oslo_policy.RuleDefault(n, '@').check


def restore_rules():
    r = rules()
    for n, v in _ORIG_RULES.items():
        if v is None:
            r.pop(n, None)
        else:
            r[n] = v
    _ORIG_RULES.clear()


def request(ctx, method, url, body=None, text=None, headers=None):
    """Issue one request as ctx; returns (status, json-or-text)."""
    ACTING['ctx'] = ctx
    h = {'Accept': 'application/json'}
    h.update(headers or {})
    kw = {'headers': h, 'expect_errors': True}
    fn = getattr(APP, method.lower())
    try:
        if method in ('GET', 'DELETE'):
            resp = fn(url, **kw)
        elif text is not None:
            h['Content-Type'] = 'text/plain'
            h.pop('Accept', None)
            resp = fn(url, text, **kw)
        else:
            fnj = getattr(APP, method.lower() + '_json')
            resp = fnj(url, body if body is not None else {}, **kw)
    finally:
        sim.auth_context.set_ctx(sim.CTX)
        sim._cleanup_session()
    try:
        data = resp.json
    except Exception:
        data = resp.text
    return resp.status_int, data


# --------------------------------------------------------------------------
# table dump of every table (canonical DB snapshot)

def db_dump():
    import sqlalchemy as sa
    eng = sim._mods['sa_base'].get_engine()
    out = {}
    insp = sa.inspect(eng)
    with eng.begin() as conn:
        for t in sorted(insp.get_table_names()):
            if t in ('alembic_version', 'mistral_metrics'):
                continue
            cols = [c['name'] for c in insp.get_columns(t)]
            keep = [c for c in cols if c not in ('updated_at',)]
            rows = conn.execute(sa.text('SELECT %s FROM %s' % (
                ', '.join('"%s"' % c for c in keep), t))).fetchall()
            out[t] = sorted(json.dumps([str(x) for x in r]) for r in rows)
    return out


def dump_diff(a, b):
    d = []
    for t in sorted(set(a) | set(b)):
        x, y = set(a.get(t, [])), set(b.get(t, []))
        if x != y:
            d.append((t, len(x - y), len(y - x)))
    return d


# --------------------------------------------------------------------------
# enumeration of exposed controller methods

def exposed_methods():
    """[(path, class name, method name, [rules named in acl.enforce])]"""
    from mistral.api.controllers import root

    out = []
    seen = set()

    def walk(ctrl, path):
        if id(ctrl) in seen:
            return
        seen.add(id(ctrl))
        cls = type(ctrl)
        for name in dir(ctrl):
            if name.startswith('__'):
                continue
            try:
                attr = getattr(ctrl, name)
            except Exception:
                continue
            if inspect.ismethod(attr) and getattr(attr, 'exposed', False):
                if name in ('_route', '_lookup', '_default'):
                    continue
                try:
                    src = inspect.getsource(attr)
                except Exception:
                    src = ''
                rl = re.findall(r"acl\.enforce\(\s*['\"]([^'\"]+)['\"]", src)
                out.append((path, cls.__name__, name, rl))
            elif (not inspect.isroutine(attr) and not isinstance(
                    attr, (str, dict, list, tuple, type, int, float))
                    and type(attr).__module__.startswith(
                        'mistral.api.controllers')):
                walk(attr, path + '/' + name)
    walk(root.RootController(), '')
    # the members controller is reachable through WorkflowsController._lookup
    from mistral.api.controllers.v2 import member
    m = member.MembersController('workflow', 'x')
    for name in dir(m):
        attr = getattr(m, name)
        if inspect.ismethod(attr) and getattr(attr, 'exposed', False) \
                and name not in ('_route', '_lookup', '_default'):
            src = inspect.getsource(attr)
            rl = re.findall(r"acl\.enforce\(\s*['\"]([^'\"]+)['\"]", src)
            out.append(('/v2/workflows/<id>/members', 'MembersController',
                        name, rl))
    return out
