"""Runner: sharding over processes, Hypothesis driving, evidence, findings.

Exit codes: 0 property held on everything explored (KNOWN-FINDING lines are
allowed), 1 violation (a line `VIOLATION property=<id> replay=<path>`),
2 harness error (`HARNESS-ERROR ...`), never a violation.
"""
import collections
import hashlib
import importlib
import json
import multiprocessing as mp
import os
import sys
import time
import traceback

VERIF = os.path.dirname(os.path.dirname(os.path.abspath(__file__)))
OUT = os.environ.get('VERIF_OUT') or VERIF   # mutant runs write elsewhere
EVIDENCE_DIR = os.path.join(OUT, 'evidence')
REPLAY_DIR = os.path.join(OUT, 'replays')
REGRESS_DIR = os.path.join(VERIF, 'regress')
FINDINGS_FILE = os.path.join(VERIF, 'known_findings.json')


def seed_from_env():
    try:
        return int(os.environ.get('VERIF_SEED', '1'))
    except ValueError:
        return 1


def fp(obj):
    return hashlib.sha1(
        json.dumps(obj, sort_keys=True, default=str).encode()).hexdigest()[:16]


class Stats(object):
    """Counters a shard returns to the parent."""

    def __init__(self):
        self.evaluations = 0
        self.nontrivial = set()
        self.tags = collections.Counter()
        self.counters = collections.Counter()
        self.samples = []
        self.max_samples = 3

    def case(self, fingerprint, nontrivial, tags=(), sample=None):
        self.evaluations += 1
        for t in tags:
            self.tags[t] += 1
        if nontrivial:
            before = len(self.nontrivial)
            self.nontrivial.add(fingerprint)
            if (sample is not None and len(self.nontrivial) > before
                    and len(self.samples) < self.max_samples):
                self.samples.append(sample)

    def to_dict(self):
        return {'evaluations': self.evaluations,
                'nontrivial': sorted(self.nontrivial),
                'tags': dict(self.tags), 'counters': dict(self.counters),
                'samples': self.samples}

    @staticmethod
    def merge(dicts, max_samples=5):
        out = Stats()
        for d in dicts:
            out.evaluations += d['evaluations']
            out.nontrivial.update(d['nontrivial'])
            out.tags.update(d['tags'])
            out.counters.update(d['counters'])
            for s in d['samples']:
                if len(out.samples) < max_samples:
                    out.samples.append(s)
        return out


class _StopShrink(BaseException):
    pass


class Violation(Exception):
    def __init__(self, kind, detail=None):
        super(Violation, self).__init__('%s: %s' % (kind, detail))
        self.kind = kind
        self.detail = detail


def drive(strategy, run_case, max_examples, seed, time_budget=None,
          shrink_budget=80, stats=None):
    """Drive run_case(case) with Hypothesis.

    run_case returns a list of violation dicts (empty = pass) and records its
    own statistics.  Returns the (shrunk) failure or None.  Shrinking is
    bounded by a number of extra executions: after the budget, only the best
    known failing case is executed for real (Hypothesis replays it last).
    """
    import hypothesis
    from hypothesis import given, settings, HealthCheck, Phase

    state = {'best': None, 'best_key': None, 'after_fail': 0, 'runs': 0,
             't0': time.time(), 'timed_out': False}

    def key_of(case):
        return fp(case)

    @hypothesis.seed(seed)
    @settings(max_examples=max_examples, database=None, deadline=None,
              derandomize=False, report_multiple_bugs=False,
              suppress_health_check=list(HealthCheck),
              phases=[Phase.generate, Phase.shrink])
    @given(case=strategy)
    def test(case):
        k = key_of(case)
        if state['best'] is None:
            if time_budget and time.time() - state['t0'] > time_budget:
                state['timed_out'] = True
                return
        else:
            state['after_fail'] += 1
            if state['after_fail'] > shrink_budget:
                # bounded shrinking: keep the best failing case found so far
                raise _StopShrink()
        state['runs'] += 1
        viol = run_case(case)
        if viol:
            size = len(json.dumps(case, default=str))
            if state['best'] is None or size <= state['best_size'] \
                    or k == state['best_key']:
                state['best'] = {'case': case, 'violations': viol}
                state['best_key'] = k
                state['best_size'] = size
            raise Violation(viol[0].get('kind'), viol[0].get('detail'))

    try:
        test()
    except Violation:
        pass
    except _StopShrink:
        pass
    except hypothesis.errors.Flaky as e:
        if state['best'] is None:
            raise
        state['best']['flaky'] = str(e)[:300]
    if stats is not None:
        stats.counters['hypothesis_runs'] += state['runs']
        if state['timed_out']:
            stats.counters['time_budget_hit'] += 1
    return state['best']


# --------------------------------------------------------------------------
# process pool

def _worker(args):
    modname, fn, shard, nshards, seed, tier, opts = args
    os.environ.setdefault('PYTHONHASHSEED', '0')
    try:
        mod = importlib.import_module(modname)
        res = getattr(mod, fn)(shard, nshards, seed, tier, opts)
        res.setdefault('harness_errors', [])
        return res
    except BaseException as e:  # noqa
        return {'stats': Stats().to_dict(), 'failures': [],
                'harness_errors': ['shard %s: %s: %s\n%s' % (
                    shard, type(e).__name__, e, traceback.format_exc())]}


def run_shards(modname, fn, nshards, seed, tier, opts=None, procs=None):
    procs = procs or min(nshards, int(os.environ.get('VERIF_PROCS', '16')))
    args = [(modname, fn, i, nshards, seed, tier, opts or {})
            for i in range(nshards)]
    if procs <= 1 or nshards == 1:
        return [_worker(a) for a in args]
    ctx = mp.get_context('spawn')
    with ctx.Pool(procs, maxtasksperchild=None) as pool:
        return pool.map(_worker, args, chunksize=1)


# --------------------------------------------------------------------------
# regression tier: saved failing inputs of repaired defects and of the
# sensitivity mutants, replayed outside Hypothesis before the search

def _regress_worker(args):
    modname, path = args
    os.environ.setdefault('PYTHONHASHSEED', '0')
    try:
        mod = importlib.import_module(modname)
        viol = mod.replay(path)
        return {'path': path, 'violations': viol or []}
    except BaseException as e:  # noqa
        return {'path': path, 'violations': [],
                'harness_error': '%s: %s\n%s' % (type(e).__name__, e,
                                                 traceback.format_exc())}


def run_regress(prop, modname):
    """Replay every file of regress/<prop>/ in its own process.
    Returns (n replayed, [(path, first violation)], [harness errors])."""
    d = os.path.join(REGRESS_DIR, prop)
    if os.environ.get('VERIF_NO_REGRESS') or not os.path.isdir(d):
        return 0, [], []
    files = sorted(os.path.join(d, f) for f in os.listdir(d)
                   if f.endswith('.json'))
    if not files:
        return 0, [], []
    ctx = mp.get_context('spawn')
    procs = min(len(files), int(os.environ.get('VERIF_PROCS', '16')))
    with ctx.Pool(procs, maxtasksperchild=1) as pool:
        res = pool.map(_regress_worker, [(modname, f) for f in files],
                       chunksize=1)
    bad = [(r['path'], r['violations'][0]) for r in res if r['violations']]
    herr = [r['harness_error'] for r in res if r.get('harness_error')]
    return len(files), bad, herr


# --------------------------------------------------------------------------
# findings

def load_findings():
    if not os.path.exists(FINDINGS_FILE):
        return []
    with open(FINDINGS_FILE) as f:
        return json.load(f).get('findings', [])


def known_for(prop):
    return [f for f in load_findings()
            if f.get('status') == 'known' and prop in f.get('properties', [])]


# --------------------------------------------------------------------------
# finishing a check

def write_replay(prop, failure):
    os.makedirs(REPLAY_DIR, exist_ok=True)
    h = fp(failure)
    path = os.path.join(REPLAY_DIR, '%s-%s.json' % (prop, h))
    with open(path, 'w') as f:
        json.dump({'property': prop, 'failure': failure}, f, indent=1,
                  sort_keys=True, default=str)
    return path


def finish(prop, tier, seed, level, t0, stats, failures, harness_errors,
           rule, assumptions=(), extra=None, known_hits=(), exhaustive=None,
           min_nontrivial=2):
    """Write evidence, print verdict lines, return the exit code."""
    os.makedirs(EVIDENCE_DIR, exist_ok=True)
    coverage = {
        'evaluations': int(stats.evaluations),
        'distinct_nontrivial': int(len(stats.nontrivial)),
        'rule': rule,
        'samples': stats.samples or [],
        'tags': dict(stats.tags),
        'counters': dict(stats.counters),
    }
    if exhaustive is not None:
        coverage['exhaustive'] = bool(exhaustive)
    if extra:
        coverage.update(extra)
    if os.environ.get('VERIF_REGRESS_N'):
        coverage['counters']['regression_cases_replayed'] = int(
            os.environ['VERIF_REGRESS_N'])
    code = 0
    lines = []
    for kh in known_hits:
        lines.append('KNOWN-FINDING: property=%s %s' % (prop, kh))
    nviol = 0
    for f in failures:
        path = write_replay(prop, f)
        lines.append('VIOLATION property=%s replay=%s' % (prop, path))
        v = f.get('violations') or [{}]
        lines.append('  detail: %s' % json.dumps(v[0], default=str)[:600])
        nviol += 1
        code = 1
    if harness_errors:
        uniq = {}
        for h in harness_errors:
            k = h.strip().splitlines()[-1] if h.strip() else h
            uniq.setdefault(k, [0, h])[0] += 1
        for k, (n, h) in list(uniq.items())[:3]:
            hl = h.splitlines()
            cut = [i for i, l in enumerate(hl)
                   if l.startswith(('Failing test case', 'Falsifying'))]
            if cut:
                hl = hl[:cut[0]]
            lines.append('HARNESS-ERROR property=%s (x%d) %s' % (
                prop, n, '\n'.join(hl[-12:])))
        if code == 0:
            code = 2
    if code == 0 and (coverage['evaluations'] < 1
                      or coverage['distinct_nontrivial'] < min_nontrivial):
        lines.append('HARNESS-ERROR property=%s too few non-trivial cases '
                     '(%s of %s)' % (prop, coverage['distinct_nontrivial'],
                                     coverage['evaluations']))
        code = 2
    ev = {
        'property_id': prop, 'tier': tier, 'seed': int(seed), 'level': level,
        'coverage': coverage, 'assumptions': list(assumptions),
        'wall_s': round(time.time() - t0, 2), 'violations': nviol,
        'known_findings_reproduced': list(known_hits),
    }
    with open(os.path.join(EVIDENCE_DIR, '%s.json' % prop), 'w') as f:
        json.dump(ev, f, indent=1, sort_keys=True, default=str)
    for ln in lines:
        print(ln)
    print('%s tier=%s seed=%s evaluations=%s nontrivial=%s wall=%.1fs exit=%s'
          % (prop, tier, seed, coverage['evaluations'],
             coverage['distinct_nontrivial'], time.time() - t0, code))
    sys.stdout.flush()
    return code
