"""Running one generated case on simworld: schedules, outcome assignment,
observation, canonical results."""
import random

from mv import sim
from mv.gen import workflows as genwf

KINDS = ('msg', 'ptx', 'act', 'job', 'clock')


class Schedule(object):
    """choose(enabled) -> index.  Base policy + bounded deviations, or a
    recorded list.  The choices actually taken are recorded for replay."""

    def __init__(self, spec):
        self.spec = spec or {'policy': 'fifo'}
        self.taken = []
        self.widths = []
        self.n = 0
        self.nonfifo = 0
        self.multi = 0
        pol = self.spec.get('policy', 'fifo')
        self.rnd = None
        if pol == 'shuffle':
            self.rnd = random.Random(self.spec.get('seed', 0))
        self.devs = {int(s): int(i) for s, i in self.spec.get('devs', [])}
        self.recorded = self.spec.get('recorded')

    def choose(self, enabled):
        n = len(enabled)
        step = self.n
        self.n += 1
        self.widths.append(n)
        if n == 1:
            self.taken.append(0)
            return 0
        self.multi += 1
        if self.recorded is not None:
            idx = self.recorded[step] % n if step < len(self.recorded) else 0
        elif step in self.devs:
            idx = self.devs[step] % n
        else:
            pol = self.spec.get('policy', 'fifo')
            if pol == 'fifo':
                idx = 0
            elif pol == 'lifo':
                idx = n - 1
            elif pol == 'shuffle':
                idx = self.rnd.randrange(n)
            elif pol == 'prio':
                order = self.spec.get('prio') or list(KINDS)
                rank = {k: i for i, k in enumerate(order)}
                idx = min(range(n),
                          key=lambda i: (rank.get(enabled[i].kind, 9), i))
            else:
                idx = 0
        if idx != 0:
            self.nonfifo += 1
        self.taken.append(idx)
        return idx


def dfs_next(taken, widths):
    """Next choice prefix in depth-first order, or None when exhausted."""
    i = len(taken) - 1
    while i >= 0:
        if taken[i] + 1 < widths[i]:
            return list(taken[:i]) + [taken[i] + 1]
        i -= 1
    return None


def gen_schedule(D, max_devs=6, horizon=60):
    pol = D.choice(['fifo', 'lifo', 'shuffle', 'prio', 'shuffle'])
    spec = {'policy': pol}
    if pol == 'shuffle':
        spec['seed'] = D.int(0, 10 ** 6)
    if pol == 'prio':
        spec['prio'] = D.perm(list(KINDS))
    nd = D.int(0, max_devs)
    spec['devs'] = [[D.int(0, horizon), D.int(0, 5)] for _ in range(nd)]
    return spec


class OutcomeMap(object):
    """outcomes = {task: [outcome per instance occurrence]}; outcome =
    ['ok', v] | ['err', m] | ['never'] | ['real'] | ['cancel', m] |
    ['seq', [outcome per attempt...]] | ['items', {index: outcome}, default]
    """

    def __init__(self, outcomes, default=None):
        import copy
        self.outcomes = copy.deepcopy(outcomes or {})
        self.default = default or ['ok', 'a']
        self.occ = {}      # task_id -> occurrence
        self.count = {}    # task name -> instances seen
        self.attempts = {}

    def __call__(self, tname, idx, attempt, info):
        tid = info.get('task_id')
        if tid not in self.occ:
            self.occ[tid] = self.count.get(tname, 0)
            self.count[tname] = self.occ[tid] + 1
        occ = self.occ[tid]
        lst = self.outcomes.get(tname)
        oc = lst[min(occ, len(lst) - 1)] if lst else self.default
        k = (tid, idx)
        n = self.attempts.get(k, 0)
        self.attempts[k] = n + 1
        return self.resolve(oc, idx, n)

    def resolve(self, oc, idx, n):
        if oc[0] == 'items':
            sub = oc[1].get(str(idx), oc[1].get(idx, oc[2]))
            return self.resolve(sub, idx, n)
        if oc[0] == 'seq':
            sub = oc[1][min(n, len(oc[1]) - 1)]
            return self.resolve(sub, idx, n)
        if oc[0] in ('never', 'real'):
            return (oc[0], None)
        return (oc[0], oc[1])


class RunResult(object):
    def __init__(self):
        self.wf_ex_id = None
        self.start_error = None
        self.quiescent = False
        self.steps = 0
        self.trace = []
        self.errors = []
        self.swallowed = []
        self.server_errors = []
        self.snap = None
        self.snaps = []
        self.sched_taken = []
        self.nonfifo = 0
        self.multi = 0
        self.integrity_rescue = False
        self.cas = []
        self.actions = {}
        self.dispatch_count = {}


def step_budget(prog):
    return 60 * max(1, len(prog.get('order') or [])) + 300


def run_until_quiet(sched, budget, observe=None, early_clock=False,
                    hook=None, integrity=False):
    """Fire events until nothing is enabled.  Returns (quiescent, steps)."""
    n = 0
    while True:
        en = sim.enabled(early_clock=early_clock, integrity=integrity)
        if not en:
            return True, n
        if n >= budget:
            return False, n
        idx = sched.choose(en)
        rec = sim.fire(en[idx])
        n += 1
        if observe is not None:
            observe(rec)
        if hook is not None:
            if hook(rec) == 'stop':
                return False, n


def run_case(case, observe_each=False, full=False):
    """Run one (program, input, outcomes, schedule) case to quiescence."""
    prog = case['prog']
    res = RunResult()
    sim.reset(salt=case.get('salt', 0), split_ptx=case.get('split', True))
    om = OutcomeMap(case.get('outcomes'))
    sim.W.outcome = om
    sim.W.split_job_delete = bool(case.get('split_jobs'))
    text = case.get('yaml') or genwf.render(prog)
    sim.create_workflows(text)
    params = {}
    if prog['type'] == 'reverse':
        params['task_name'] = case.get('target') or prog['target']
    if case.get('env'):
        params['env'] = case['env']
    if case.get('warm'):
        # an earlier execution of the same definitions with other parameters,
        # run to the end in the same world: whatever it leaves in the
        # engine's in-memory caches must not influence the measured run
        wparams = dict(params)
        if case['warm'].get('env') is not None:
            wparams['env'] = case['warm']['env']
        wk, wv = sim.start_workflow(case.get('wf_name') or prog['name'],
                                    dict(case['warm'].get('input') or {}),
                                    **wparams)
        if wk == 'ok':
            run_until_quiet(Schedule({'policy': 'fifo'}), step_budget(prog))
            res.warm_wf_ex_id = wv.id
        # the measured run starts with fresh outcome / attempt counters
        om = OutcomeMap(case.get('outcomes'))
        sim.W.outcome = om
        sim.W.nact = {}
    kind, val = sim.start_workflow(case.get('wf_name') or prog['name'],
                                   dict(case.get('input') or {}), **params)
    if kind != 'ok':
        res.start_error = val
        res.snap = sim.snapshot(full=full)
        return res
    res.wf_ex_id = val.id
    sched = Schedule(case.get('sched'))

    def obs(rec):
        res.snaps.append((rec['step'], sim.snapshot()))

    if case.get('evict'):
        evict = set(case['evict'])

        def hook(rec):
            if rec['step'] in evict or 'all' in evict:
                sim.clear_spec_caches()
    else:
        hook = None
    q, n = run_until_quiet(sched, step_budget(prog),
                           observe=obs if observe_each else None, hook=hook)
    if q and case.get('auto_resume'):
        # the definition pauses itself (`pause` command): an operator resumes
        # whenever nothing else is pending (bounded)
        for _ in range(8):
            cur = sim.snapshot()
            paused = sorted((w for w in cur['wf'].values()
                             if w['state'] == 'PAUSED'),
                            key=lambda w: (w['task_execution_id'] is not None,
                                           w['created_at'], w['id']))
            if not paused:
                break
            sim.call(sim.rpc_clients.get_engine_client().resume_workflow,
                     paused[0]['id'])
            res.resumes = getattr(res, 'resumes', 0) + 1
            q, n2 = run_until_quiet(sched, step_budget(prog),
                                    observe=obs if observe_each else None,
                                    hook=hook)
            n += n2
            if not q:
                break
    res.quiescent = q
    res.steps = n
    snap = sim.snapshot(full=full)
    if q and snap['wf'][res.wf_ex_id]['state'] in ('RUNNING',):
        # nothing but the integrity timer is pending: let it fire (bounded)
        # to tell a lost wake-up that it repairs from a genuine hang.
        before = snap['wf'][res.wf_ex_id]['state']
        if not sim.W.inflight:
            for _ in range(2):
                # (a) advance to and run exactly one integrity job
                q2, n2 = run_until_quiet(sched, 50, integrity=True,
                                         hook=_stop_after_integrity)
                # (b) drain whatever it started
                run_until_quiet(sched, 400)
                snap = sim.snapshot(full=full)
                if snap['wf'][res.wf_ex_id]['state'] != before:
                    res.integrity_rescue = True
                    break
                if q2:
                    break
    res.snap = snap
    res.trace = sim.W.trace
    res.errors = sim.W.errors
    res.swallowed = sim.W.swallowed
    res.server_errors = sim.W.server_errors
    res.sched_taken = sched.taken
    res.sched_widths = sched.widths
    res.nonfifo = sched.nonfifo
    res.multi = sched.multi
    res.cas = sim.W.cas
    res.actions = sim.W.actions
    res.dispatch_count = sim.W.dispatch_count
    return res


def _stop_after_integrity(rec):
    if rec['kind'] == 'job' and rec['label'] == '_check_and_fix_integrity':
        return 'stop'
    return None


def root_of(res):
    return res.snap['wf'].get(res.wf_ex_id)


def tasks_of(res, wf_ex_id=None):
    wid = wf_ex_id or res.wf_ex_id
    return [t for t in res.snap['task'].values() if t['wf_ex_id'] == wid]


def verdict(res, out_keys=None):
    """(wf_state, ((task, state)...), output restricted to out_keys)"""
    w = root_of(res)
    tasks = tuple(sorted((t['name'], t['state']) for t in tasks_of(res)))
    output = None
    if out_keys is not None and w['state'] == 'SUCCESS':
        o = w['output'] or {}
        output = tuple(sorted((k, o.get(k)) for k in out_keys))
    return (w['state'], tasks, output)


def canon_rows(res, with_info=False, error_output=True, with_input=False,
               root=None, accepted_subs_only=False):
    """Canonical final rows with ids/timestamps erased (C02/C06/C10).
    with_input: the evaluated input of every action execution is part of the
    rows; root: only the execution tree of that root execution."""
    out = {'wf': [], 'task': []}
    if root is not None:
        keep_wf = {w['id'] for w in res.snap['wf'].values()
                   if w['id'] == root or w['root_execution_id'] == root}
        keep_t = {t['id'] for t in res.snap['task'].values()
                  if t['wf_ex_id'] in keep_wf}
        snap = {'wf': {k: v for k, v in res.snap['wf'].items()
                       if k in keep_wf},
                'task': {k: v for k, v in res.snap['task'].items()
                         if k in keep_t},
                'action': {k: v for k, v in res.snap['action'].items()
                           if v['task_execution_id'] in keep_t}}

        class _R(object):
            pass
        r2 = _R()
        r2.snap = snap
        return canon_rows(r2, with_info, error_output, with_input,
                          accepted_subs_only=accepted_subs_only)
    if accepted_subs_only:
        # sub-workflow executions superseded by a rerun of their parent task
        # (not accepted any more) and everything below them are not part of
        # the result
        dropped = set()
        changed = True
        tasks_wf = {t['id']: t['wf_ex_id'] for t in res.snap['task'].values()}
        while changed:
            changed = False
            for w in res.snap['wf'].values():
                if w['id'] in dropped or not w['task_execution_id']:
                    continue
                parent_wf = tasks_wf.get(w['task_execution_id'])
                if (not w['accepted'] and w['state'] in
                        ('SUCCESS', 'ERROR', 'CANCELLED')) or \
                        parent_wf in dropped:
                    dropped.add(w['id'])
                    changed = True
        if dropped:
            keep_t = {t['id'] for t in res.snap['task'].values()
                      if t['wf_ex_id'] not in dropped}

            class _R2(object):
                pass
            r3 = _R2()
            r3.snap = {
                'wf': {k: v for k, v in res.snap['wf'].items()
                       if k not in dropped},
                'task': {k: v for k, v in res.snap['task'].items()
                         if k in keep_t},
                'action': {k: v for k, v in res.snap['action'].items()
                           if v['task_execution_id'] in keep_t}}
            return canon_rows(r3, with_info, error_output, with_input)
    acts_by_task = {}
    for a in res.snap['action'].values():
        acts_by_task.setdefault(a['task_execution_id'], []).append(a)
    subs_by_task = {}
    for w in res.snap['wf'].values():
        if w['task_execution_id']:
            subs_by_task.setdefault(w['task_execution_id'], []).append(w)
    wf_name = {w['id']: w['name'] for w in res.snap['wf'].values()}
    for w in res.snap['wf'].values():
        o = dict(w['output'] or {})
        if w['state'] in ('ERROR', 'CANCELLED'):
            o.pop('result', None)   # message embeds ids
            if not error_output:
                # a forced failure (fail command, failing expression)
                # racing parallel branches: the error output is whatever
                # had been published by then - inherently order-dependent
                o = {}
        out['wf'].append((w['name'], w['state'], sim._canon(o),
                          w['task_execution_id'] is not None))
    for t in res.snap['task'].values():
        acts = acts_by_task.get(t['id'], [])
        a_rows = sorted((a['index'] if a['index'] is not None else -1,
                         a['state'], bool(a['accepted']),
                         sim._canon(a['output'])) +
                        ((sim._canon(a['input']),) if with_input else ())
                        for a in acts)
        s_rows = sorted((w['name'], w['state'])
                        for w in subs_by_task.get(t['id'], []))
        out['task'].append((wf_name.get(t['wf_ex_id']), t['name'], t['state'],
                            sim._canon(t['published']),
                            bool(t['error_handled']), tuple(a_rows),
                            tuple(s_rows)))
    out['wf'].sort()
    out['task'].sort()
    return out


def trace_labels(res, limit=400):
    return ['%s:%s%s' % (r['kind'], r['label'],
                         '!' + r['exc'] if r.get('exc') else '')
            for r in res.trace[:limit]]
