"""Histories: engine events interleaved with operator commands (C03, C10-C12).

A case carries a command plan: a list of {at, cmd, sel, arg}.  `at` is the
number of engine events fired before the command is issued; commands left
over when the world is quiescent are issued one by one afterwards (late
commands / late results).  Commands go through the engine RPC client exactly
as the REST controllers call it; the REST-side guards that make a command
unreachable for a user (rerun/skip only of ERROR tasks) are mirrored.
"""
from mv import sim
from mv import enginerun

CMD_KINDS = ('pause', 'resume', 'stop', 'rerun', 'skip', 'action_update',
             'late_result', 'async_result', 'late_update', 'action_update',
             'revive')
FINAL = ('SUCCESS', 'ERROR', 'CANCELLED')


def gen_plan(D, max_cmds=4, horizon=40, kinds=CMD_KINDS, weights=None):
    n = D.int(0, max_cmds)
    plan = []
    for _ in range(n):
        k = D.choice(list(kinds))
        c = {'at': D.int(0, horizon), 'cmd': k, 'sel': D.int(0, 3)}
        if k == 'stop':
            c['state'] = D.choice(['SUCCESS', 'ERROR', 'CANCELLED',
                                   'CANCELLED'])
            c['msg'] = D.choice([None, 'stop-msg'])
        elif k == 'rerun':
            c['reset'] = D.bool(0.6)
            c['new'] = D.choice([['ok', 'a'], ['ok', 'a'], ['err', 'again']])
        elif k == 'action_update':
            c['state'] = D.choice(['PAUSED', 'RUNNING', 'SUCCESS', 'ERROR',
                                   'CANCELLED'])
        elif k == 'async_result':
            c['ok'] = D.bool(0.7)
        elif k == 'late_update':
            c['state'] = D.choice(['RUNNING', 'PAUSED'])
        elif k == 'revive':
            c['state'] = D.choice(['SUCCESS', 'ERROR', 'CANCELLED'])
        elif k == 'lose_cas':
            c['state'] = D.choice(['CANCELLED', 'ERROR', 'SUCCESS'])
        elif k == 'orphan_update':
            c['pause_first'] = D.bool(0.4)
            c['then_result'] = D.bool(0.6)
            c['at'] = D.int(20, 2 * horizon)   # typically after quiescence
        plan.append(c)
    plan.sort(key=lambda c: c['at'])
    return plan


def _ordered(rows):
    return sorted(rows.values(), key=lambda r: (r['created_at'], r['id']))


class History(object):
    def __init__(self, case):
        self.case = case
        self.issued = []      # (step, cmd, target, outcome)
        self.snaps = []       # (step, label, snapshot)
        self.res = None
        self.om = None

    def client(self):
        return sim.rpc_clients.get_engine_client()

    def mid(self, label):
        """Snapshot between the calls of a macro command, so that every
        call is an observed step of its own."""
        self.snaps.append((sim.W.step, 'cmd:' + label, sim.snapshot()))

    def issue(self, c, snap):
        """Issue one command; returns a record (or None when no target)."""
        cl = self.client()
        k = c['cmd']
        wfs = _ordered(snap['wf'])
        tasks = _ordered(snap['task'])
        acts = _ordered(snap['action'])
        rec = {'cmd': k, 'target': None, 'result': None}
        if k in ('pause', 'resume', 'stop'):
            if not wfs:
                return None
            w = wfs[c['sel'] % len(wfs)]
            rec['target'] = ('wf', w['id'], w['name'], w['state'])
            rec['root'] = w['task_execution_id'] is None
            if k == 'pause':
                r = sim.call(cl.pause_workflow, w['id'])
            elif k == 'resume':
                r = sim.call(cl.resume_workflow, w['id'])
            else:
                rec['state'] = c['state']
                rec['msg'] = c.get('msg')
                r = sim.call(cl.stop_workflow, w['id'], c['state'],
                             c.get('msg'))
        elif k in ('rerun', 'skip'):
            cands = [t for t in tasks if t['state'] == 'ERROR']
            if not cands:
                return None
            t = cands[c['sel'] % len(cands)]
            rec['target'] = ('task', t['id'], t['name'], t['state'])
            rec['wf_ex_id'] = t['wf_ex_id']
            reset = c.get('reset', True)
            is_wi = bool((t.get('spec_with_items')))
            if k == 'rerun':
                if not reset and not is_wi:
                    reset = True   # REST: only with-items may not reset
                rec['reset'] = reset
                if c.get('new') and self.om is not None:
                    self.om.outcomes[t['name']] = [c['new']]
                    rec['new'] = c['new']
                r = sim.call(cl.rerun_workflow, t['id'], reset=reset,
                             skip=False)
            else:
                r = sim.call(cl.rerun_workflow, t['id'], reset=True,
                             skip=True)
        elif k == 'action_update':
            if not acts:
                return None
            if c['state'] in ('PAUSED', 'RUNNING') and c.get('live', True):
                live = [a for a in acts if a['state'] not in FINAL]
                if live:
                    acts = live
            a = acts[c['sel'] % len(acts)]
            rec['target'] = ('action', a['id'], a['name'], a['state'])
            rec['state'] = c['state']
            if c['state'] in FINAL:
                if c['state'] == 'SUCCESS':
                    res = sim.ml_actions.Result(data='upd')
                elif c['state'] == 'ERROR':
                    res = sim.ml_actions.Result(error='upd-err')
                else:
                    res = sim.ml_actions.Result(cancel=True)
                r = sim.call(cl.on_action_complete, a['id'], res)
            else:
                r = sim.call(cl.on_action_update, a['id'], c['state'])
        elif k == 'late_update':
            cands = [a for a in acts if a['state'] in FINAL]
            if not cands:
                return None
            a = cands[c['sel'] % len(cands)]
            rec['target'] = ('action', a['id'], a['name'], a['state'])
            rec['state'] = c['state']
            r = sim.call(cl.on_action_update, a['id'], c['state'])
        elif k == 'revive':
            # macro: external update of a finished action back to RUNNING,
            # then a new result for the same action
            cands = [a for a in acts if a['state'] in FINAL]
            if not cands:
                return None
            a = cands[c['sel'] % len(cands)]
            rec['target'] = ('action', a['id'], a['name'], a['state'])
            rec['state'] = c['state']
            r0 = sim.call(cl.on_action_update, a['id'], 'RUNNING')
            rec['first'] = r0[0]
            self.mid('revive/running')
            if c['state'] == 'SUCCESS':
                res = sim.ml_actions.Result(data='revived')
            elif c['state'] == 'ERROR':
                res = sim.ml_actions.Result(error='revived-err')
            else:
                res = sim.ml_actions.Result(cancel=True)
            r = sim.call(cl.on_action_complete, a['id'], res)
        elif k == 'update_defs':
            # the definitions are updated while executions of the old ones
            # are in flight (every task additionally routes to a new task):
            # running executions keep the definition they were started with
            import copy
            from mv.gen import workflows as G
            mod = copy.deepcopy(self.case['prog'])
            for p_ in [mod] + list(mod.get('subs') or []):
                if p_['type'] != 'direct':
                    continue
                for nm in list(p_['order']):
                    p_['tasks'][nm]['on-complete'] = list(
                        p_['tasks'][nm].get('on-complete') or []) + [
                        {'to': 'zz_upd', 'guard': None}]
                p_['tasks']['zz_upd'] = G.new_task()
                p_['tasks']['zz_upd']['form'] = {'action': 'noop'}
                p_['order'] = list(p_['order']) + ['zz_upd']
            text = G.render_all(mod)
            rec['target'] = ('defs', None, None, None)
            r = sim.call(lambda: sim.wf_service.update_workflows(text))
        elif k == 'lose_cas':
            # fault below the transaction granularity: the next completion
            # of the root execution loses its compare-and-swap against a
            # concurrent operator stop (see sim.arm_cas_loss)
            roots = [w for w in wfs if w['task_execution_id'] is None
                     and w['state'] in ('RUNNING', 'PAUSED')]
            if not roots:
                return None
            w = roots[0]
            rec['target'] = ('wf', w['id'], w['name'], w['state'])
            rec['state'] = c['state']
            sim.arm_cas_loss(w['id'], c['state'], 'foreign-stop')
            r = ('ok', None)
        elif k == 'orphan_update':
            # macro: an action that is still live although its task already
            # reached a final state (timed out, cancelled): external update
            # to PAUSED / RUNNING, then its genuine result arrives
            tstate = {t['id']: t['state'] for t in tasks}
            cands = [a for a in acts if a['state'] not in FINAL
                     and tstate.get(a['task_execution_id']) in FINAL]
            if not cands:
                return None
            a = cands[c['sel'] % len(cands)]
            rec['target'] = ('action', a['id'], a['name'], a['state'])
            rec['task_state'] = tstate.get(a['task_execution_id'])
            if c.get('pause_first'):
                sim.call(cl.on_action_update, a['id'], 'PAUSED')
                self.mid('orphan_update/paused')
            r = sim.call(cl.on_action_update, a['id'], 'RUNNING')
            if c.get('then_result'):
                self.mid('orphan_update/running')
                sim.W.inflight.pop(a['id'], None)
                r = sim.call(cl.on_action_complete, a['id'],
                             sim.ml_actions.Result(data='orphan-late'))
        elif k == 'late_result':
            cands = [a for a in acts if a['state'] in FINAL]
            if not cands:
                return None
            a = cands[c['sel'] % len(cands)]
            rec['target'] = ('action', a['id'], a['name'], a['state'])
            r = sim.call(cl.on_action_complete, a['id'],
                         sim.ml_actions.Result(data='late'))
        elif k == 'async_result':
            # (ordered by task / item / dispatch order, not by id: ids depend
            # on how many were drawn before, e.g. by a duplicate message)
            ids = sorted(sim.W.inflight, key=lambda a: (
                str(sim.W.inflight[a].get('task')),
                sim.W.inflight[a].get('index') or 0,
                sim.W.inflight[a].get('step') or 0))
            if not ids:
                return None
            aid = ids[c['sel'] % len(ids)]
            sim.W.inflight.pop(aid, None)
            rec['target'] = ('action', aid, None, None)
            res = sim.ml_actions.Result(data='async-ok') if c.get('ok', True) \
                else sim.ml_actions.Result(error='async-err')
            rec['ok'] = c.get('ok', True)
            r = sim.call(cl.on_action_complete, aid, res)
        else:
            raise sim.HarnessError('unknown command %r' % k)
        rec['result'] = r[0]
        if r[0] == 'exc':
            e = r[1]
            rec['exc'] = type(e).__name__
            rec['exc_mro'] = [x.__name__ for x in type(e).__mro__]
            rec['exc_msg'] = str(e)[:200]
        rec['step'] = sim.W.step
        return rec


def dup_kind(ev):
    """Kind of a duplicable message: result / start_task / start_wf."""
    if ev.kind == 'act':
        return 'result'
    m = ev.meta.get('method')
    if m == 'start_task':
        return 'start_task'
    if m == 'on_action_complete':
        return 'result'
    if m == 'start_workflow' and (ev.meta.get('kwargs') or {}).get(
            'wf_ex_id'):
        return 'start_workflow'
    return None


def _snap_diff(a, b):
    out = []
    for k in ('wf', 'task', 'action'):
        for i in set(a[k]) | set(b[k]):
            if a[k].get(i) != b[k].get(i):
                x, y = a[k].get(i), b[k].get(i)
                if x is None or y is None:
                    out.append((k, i[-6:], 'created' if x is None
                                else 'deleted'))
                else:
                    out.append((k, i[-6:], [f for f in x
                                            if x[f] != y.get(f)]))
    return out


def run_history(case, observe=True, full=False):
    """Run the case with its command plan.  Returns a History."""
    prog = case['prog']
    h = History(case)
    res = enginerun.RunResult()
    h.res = res
    sim.reset(salt=case.get('salt', 0), split_ptx=case.get('split', True))
    om = enginerun.OutcomeMap(case.get('outcomes'))
    h.om = om
    sim.W.outcome = om
    text = case.get('yaml') or __import__(
        'mv.gen.workflows', fromlist=['x']).render(prog)
    if case.get('workbook'):
        from mistral.services import workbooks as wb_service
        wb_service.create_workbook_v2(text)
    else:
        sim.create_workflows(text)
    params = {}
    if prog['type'] == 'reverse':
        params['task_name'] = case.get('target') or prog['target']
    if case.get('env'):
        params['env'] = case['env']
    if case.get('start_with_id'):
        # the API accepts a caller-supplied execution id: the start request
        # becomes a message that may be redelivered
        wid = '11111111-2222-3333-4444-%012d' % (case.get('salt', 0) + 1)
        cl = sim.rpc_clients.get_engine_client()
        sim.call(lambda: cl.start_workflow(
            case.get('wf_name') or prog['name'], wf_ex_id=wid,
            wf_input=dict(case.get('input') or {}), async_=True, **params))
        res.wf_ex_id = wid
    else:
        kind, val = sim.start_workflow(
            case.get('wf_name') or prog['name'],
            dict(case.get('input') or {}), **params)
        if kind != 'ok':
            res.start_error = val
            res.snap = sim.snapshot(full=full)
            return h
        res.wf_ex_id = val.id
    sched = enginerun.Schedule(case.get('sched'))
    plan = sorted(case.get('plan') or [], key=lambda c: c['at'])
    budget = enginerun.step_budget(prog) + 100 * len(plan)
    dups = list(case.get('dups') or [])
    dup_count = {}
    held = []          # duplicates delivered after quiescence
    h.dup_log = []
    resumes = 0
    fired = 0
    snap = sim.snapshot(full=full)
    h.snaps.append((sim.W.step, 'start', snap))
    pi = 0
    quiet = False
    while True:
        # commands due now
        en = sim.enabled()
        while pi < len(plan) and (plan[pi]['at'] <= fired or not en):
            c = plan[pi]
            pi += 1
            pending_before = len(en)
            if not observe:
                snap = sim.snapshot(full=full)
            rec = h.issue(c, snap)
            if rec is None:
                h.issued.append({'cmd': c['cmd'], 'skipped': True,
                                 'step': sim.W.step})
                continue
            rec['pending_events'] = pending_before
            h.issued.append(rec)
            snap = sim.snapshot(full=full)
            h.snaps.append((sim.W.step, 'cmd:' + c['cmd'], snap))
            en = sim.enabled()
        if not en and held:
            for ev in held:
                sim.W.add(ev)
            held = []
            en = sim.enabled()
        if not en and case.get('resume_at_end') and resumes < 6:
            cur = sim.snapshot()
            paused = sorted((w for w in cur['wf'].values()
                             if w['state'] == 'PAUSED'),
                            key=lambda w: (w['task_execution_id'] is not None,
                                           w['created_at'], w['id']))
            pacts = sorted((a for a in cur['action'].values()
                            if a['state'] == 'PAUSED'),
                           key=lambda a: (a['created_at'], a['id']))
            if paused or pacts:
                resumes += 1
                if pacts:
                    sim.call(sim.rpc_clients.get_engine_client()
                             .on_action_update, pacts[0]['id'], 'RUNNING')
                else:
                    sim.call(sim.rpc_clients.get_engine_client()
                             .resume_workflow, paused[0]['id'])
                # (a resume may run straight into the next pause command
                # without queueing anything: look again, bounded by
                # `resumes`)
                continue
        if not en and case.get('complete_async_at_end') and sim.W.inflight:
            for aid in sorted(sim.W.inflight):
                sim.W.inflight.pop(aid, None)
                sim.call(sim.rpc_clients.get_engine_client()
                         .on_action_complete, aid,
                         sim.ml_actions.Result(data='async-done'))
            en = sim.enabled()
            if en:
                continue
        if not en:
            quiet = True
            break
        if fired >= budget:
            break
        idx = sched.choose(en)
        ch = en[idx]
        dup_evs = []
        is_dup = False
        if ch.kind in ('msg', 'act'):
            ev0 = ch.ref
            is_dup = bool(ev0.meta.get('dup_of'))
            dk = dup_kind(ev0)
            if dk and not is_dup:
                n = dup_count.get(dk, 0)
                dup_count[dk] = n + 1
                for d in dups:
                    if d['kind'] == dk and d['nth'] == n:
                        for ci in range(d.get('copies', 1)):
                            meta = dict(ev0.meta)
                            meta['dup_of'] = ev0.seq
                            dup_evs.append((d.get('where', 'later'),
                                            sim.Ev(ev0.kind,
                                                   ev0.label + '~dup',
                                                   ev0.thunk, meta)))
        before_dup = sim.snapshot() if is_dup else None
        r = sim.fire(ch)
        if not is_dup:
            fired += 1      # duplicates don't shift the command plan
        if is_dup:
            after_dup = sim.snapshot()
            h.dup_log.append({'label': ch.label, 'step': r['step'],
                              'exc': r.get('exc'),
                              'changed': _snap_diff(before_dup, after_dup)})
        for where, ev in dup_evs:
            if where == 'now':
                sim.W.seq += 1
                ev.seq = sim.W.seq
                ev.meta['born'] = sim.W.step
                sim.W.events.insert(0, ev)
            elif where == 'end':
                held.append(ev)
            else:
                sim.W.add(ev)
        if observe:
            snap = sim.snapshot(full=full)
            h.snaps.append((sim.W.step, '%s:%s' % (r['kind'], r['label']),
                            snap))
    res.quiescent = quiet
    res.steps = fired
    res.snap = sim.snapshot(full=full)
    res.trace = sim.W.trace
    res.errors = sim.W.errors
    res.swallowed = sim.W.swallowed
    res.sched_taken = sched.taken
    res.sched_widths = sched.widths
    res.nonfifo = sched.nonfifo
    res.multi = sched.multi
    res.cas = sim.W.cas
    res.actions = sim.W.actions
    res.dispatch_count = sim.W.dispatch_count
    return h
