"""baton: several service instances as real threads, one runs at a time.

A controller (the test, driven by Hypothesis draws) owns the baton.  Worker
threads run real service code and stop at *yield points* — wrappers placed on
instance methods / module attributes, effective only while the thread has no
open DB session (a thread parked inside a transaction would hold tx_lock).
The controller resumes a chosen worker up to its next yield point, or crashes
it: the worker is resumed with Crash (a BaseException) raised at the yield
point, so `except Exception` handlers do not swallow it and nothing after the
point runs — what a process death does.
"""
import threading


class Crash(BaseException):
    pass


class Worker(object):
    def __init__(self, baton, name, fn):
        self.baton = baton
        self.name = name
        self.fn = fn
        self.at = None          # label of the yield point it is parked at
        self.done = False
        self.crashed = False
        self.error = None
        self.result = None
        self._crash = False
        self.thread = threading.Thread(target=self._run, name=name)
        self.thread.daemon = True

    def _run(self):
        b = self.baton
        b._wait_turn(self)
        b.current = self
        try:
            self.result = self.fn()
        except Crash:
            self.crashed = True
        except BaseException as e:   # noqa
            self.error = e
        finally:
            self.done = True
            self.at = None
            b.current = None
            _cleanup_thread_session()
            b._give_back()


def _cleanup_thread_session():
    from mv import sim
    sa_base = sim._mods['sa_base']
    if sa_base._get_thread_local_session() is not None:
        try:
            sa_base.end_tx()
        except Exception:
            sa_base._set_thread_local_session(None)


class Baton(object):
    def __init__(self):
        self.cv = threading.Condition()
        self.turn = None        # None = controller, else Worker
        self.current = None
        self.workers = []
        self.log = []

    # ---- controller side
    def spawn(self, name, fn):
        """Create a worker and run it up to its first yield point."""
        w = Worker(self, name, fn)
        self.workers.append(w)
        w.thread.start()
        self._resume(w)
        return w

    def step(self, w):
        if w.done:
            return
        self._resume(w)

    def crash(self, w):
        if w.done:
            return
        w._crash = True
        self._resume(w)

    def finish(self, w, limit=200):
        n = 0
        while not w.done and n < limit:
            self._resume(w)
            n += 1

    def parked(self):
        return [w for w in self.workers if not w.done]

    def _resume(self, w):
        with self.cv:
            self.turn = w
            self.cv.notify_all()
            ok = self.cv.wait_for(lambda: self.turn is None, timeout=120)
        if not ok:
            from mv import sim
            raise sim.HarnessError('baton: worker %s did not yield' % w.name)

    # ---- worker side
    def _wait_turn(self, w):
        with self.cv:
            self.cv.wait_for(lambda: self.turn is w)

    def _give_back(self):
        with self.cv:
            self.turn = None
            self.cv.notify_all()

    def yield_point(self, label, in_tx=False):
        """Called from service code (through a wrapper).

        in_tx=True marks a point that may park a thread inside an open
        transaction; only harnesses that replaced tx_lock by NoLock and
        place such points after a read-only prefix of the transaction use
        it (see NoLock)."""
        w = self.current
        if w is None or threading.current_thread() is not w.thread:
            return
        from mv import sim
        if not in_tx and \
                sim._mods['sa_base']._get_thread_local_session() is not None:
            return    # never park inside a transaction
        w.at = label
        self.log.append((w.name, label))
        self.current = None
        self._give_back()
        self._wait_turn(w)
        self.current = w
        w.at = None
        if w._crash:
            raise Crash()


def wrap_method(baton, obj, name, label=None):
    """Make obj.<name> a yield point (before the call)."""
    orig = getattr(obj, name)
    lab = label or name

    def wrapper(*a, **kw):
        baton.yield_point('before:' + lab)
        return orig(*a, **kw)
    wrapper._mv_orig = orig
    setattr(obj, name, wrapper)
    return orig


class NoLock(object):
    """Stand-in for mistral.db.sqlalchemy.base.tx_lock (the process-wide
    lock that serialises SQLite transactions).  The baton already lets only
    one thread run at a time; without the lock a thread may be parked
    *inside* a transaction, after statements that only read.  All sessions
    share the single SQLite connection, so what the parked transaction then
    sees when it continues is the latest committed state: the statement-level
    behaviour of UPDATE/DELETE ... WHERE on a server database (current
    read).  A parked transaction must not have written anything yet: another
    session's commit would publish it."""

    def acquire(self, *a, **kw):
        return True

    def release(self):
        pass

    def __enter__(self):
        return self

    def __exit__(self, *a):
        return False
