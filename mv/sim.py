"""simworld: a deterministic, single-process Mistral (DESIGN.md 2.1).

The real DefaultEngine / EngineServer / controllers / Task / Workflow classes,
policies, scheduler persistence and DB layer run unchanged over in-memory
SQLite.  What is substituted: the RPC transport (BusClient), the thread that
runs post-commit operations (captured as events), the executor (VExecutor:
results come from the case's outcome assignment), scheduler threads (the
harness turns due jobs into events), the clock and uuid4.

Every substitution is a monkeypatch applied at boot; each target is asserted
to exist (a missing target is a harness error, never a violation).
"""
import datetime
import heapq
import os
import sys
import threading
import traceback
import uuid as _uuid

REPO = os.environ.get('VERIF_REPO', '/repo')
if REPO not in sys.path:
    sys.path.insert(0, REPO)

_BOOTED = False


class HarnessError(Exception):
    """The harness itself is broken (exit 2), not the system under test."""


class Ev(object):
    __slots__ = ('kind', 'label', 'thunk', 'meta', 'seq')

    def __init__(self, kind, label, thunk, meta=None):
        self.kind = kind
        self.label = label
        self.thunk = thunk
        self.meta = meta or {}
        self.seq = None

    def __repr__(self):
        return '%s:%s' % (self.kind, self.label)


class World(object):
    def __init__(self):
        self.events = []          # pending msg / ptx / act events (FIFO order)
        self.trace = []           # fired events
        self.errors = []          # exceptions seen at event boundaries
        self.swallowed = []       # exceptions the production code logs+drops
        self.cas = []             # compare-and-swap log
        self.actions = {}         # action_ex_id -> info of dispatched actions
        self.dispatch_count = {}  # action_ex_id -> number of run_action calls
        self.inflight = {}        # action_ex_id -> info for 'never' outcomes
        self.nact = {}            # (task, index) -> dispatch count
        self.outcome = None       # callable(task, index, attempt, info)
        self.split_ptx = True
        self.seq = 0
        self.step = 0
        self.chain = None         # current split post-tx chain
        self.rpc_log = []         # every rpc message (method, kwargs summary)
        self.drop_filter = None   # callable(ev) -> True to drop at enqueue
        self.cur_event = None
        self.sub_wf_started = []
        self.forced_fail = 0
        self.server_errors = []   # exceptions raised by EngineServer methods
        self.cas_loss = None      # armed lost-compare-and-swap injection
        self.split_job_delete = False   # job row deleted in a later event

    def add(self, ev):
        self.seq += 1
        ev.seq = self.seq
        ev.meta.setdefault('born', self.step)
        if self.drop_filter is not None and self.drop_filter(ev):
            self.trace.append({'step': self.step, 'kind': 'drop',
                               'label': ev.label})
            return
        if self.chain is not None and self.chain['remaining'] > 0 \
                and ev.kind == 'ptx':
            # Queues spawned by an operation start only after the whole
            # parent queue has been processed (the real @run wrapper).
            self.chain['parked'].append(ev)
            return
        self.events.append(ev)


W = World()

# Set by boot()
CONF = None
db_api = None
auth_context = None
timeutils = None
states = None
ml_actions = None
rpc_clients = None
engine = None
endpoint = None
sched = None
CTX = None
spec_parser = None
wf_service = None
T0 = datetime.datetime(2030, 1, 1, 0, 0, 0)
_mods = {}

INTEGRITY_FN = 'mistral.engine.workflow_handler._check_and_fix_integrity'


def _require(obj, name):
    if not hasattr(obj, name):
        raise HarnessError('patch target missing: %r.%s' % (obj, name))
    return getattr(obj, name)


# --------------------------------------------------------------------------
# deterministic uuid4

class _Ids(object):
    def __init__(self):
        self.salt = 0
        self.n = 0

    def reset(self, salt):
        self.salt = salt
        self.n = 0

    def uuid4(self):
        self.n += 1
        # salt permutes the relative order of ids within a run.
        x = (self.n * 2654435761 + self.salt * 40503) % (1 << 32)
        if self.salt == 0:
            x = self.n
        return _uuid.UUID(int=(x << 64) | self.n)


IDS = _Ids()


def boot(scheduler_type='default', auth_enable=False):
    """Boot the world once per process."""
    global _BOOTED, CONF, db_api, auth_context, timeutils, states
    global ml_actions, rpc_clients, engine, endpoint, sched, CTX
    global spec_parser, wf_service

    if _BOOTED:
        return
    import logging as pylog
    pylog.disable(pylog.CRITICAL)

    from oslo_config import cfg
    from oslo_log import log as logging
    CONF = cfg.CONF
    logging.register_options(CONF)
    from mistral import config  # noqa registers opts
    from mistral.db.sqlalchemy import base as sa_base  # noqa
    CONF(args=[], project='mistral', default_config_files=[])
    CONF.set_default('connection', 'sqlite://', group='database')
    CONF.set_default('max_overflow', -1, group='database')
    CONF.set_default('max_pool_size', 1000, group='database')
    # oslo.db recycles connections after an hour by default; the recycled
    # connection of an in-memory SQLite database is a new, empty database
    # (seen in a thorough run that lived 3610 s under load)
    CONF.set_default('connection_recycle_time', 10 ** 9, group='database')
    CONF.set_override('only_builtin_actions', True, 'legacy_action_provider')
    CONF.set_override('load_action_generators', False,
                      'legacy_action_provider')
    CONF.set_override('auth_enable', auth_enable, group='pecan')
    CONF.set_override('type', 'local', 'executor')
    CONF.set_override('scheduler_type', scheduler_type)

    from oslo_utils import timeutils as _tu
    timeutils = _tu
    from mistral.db.v2 import api as _db_api
    db_api = _db_api
    from mistral import context as _ac
    auth_context = _ac
    from mistral.services import security
    from mistral.services import workflows as _wf_service
    wf_service = _wf_service
    from mistral.services import actions as action_service
    from mistral.rpc import base as rpc_base
    from mistral.rpc import clients as _rpc_clients
    rpc_clients = _rpc_clients
    from mistral.engine import engine_server, default_engine, post_tx_queue
    from mistral.executors import base as exe_base
    from mistral.scheduler import base as sched_base
    from mistral.scheduler import default_scheduler
    from mistral.services import legacy_scheduler
    from mistral.lang import parser as _spec_parser
    spec_parser = _spec_parser
    from mistral_lib import actions as _ml_actions
    ml_actions = _ml_actions
    from mistral.workflow import states as _states
    states = _states
    from mistral_lib import utils as ml_utils

    _mods.update(dict(
        rpc_base=rpc_base, post_tx_queue=post_tx_queue, exe_base=exe_base,
        sched_base=sched_base, default_scheduler=default_scheduler,
        legacy_scheduler=legacy_scheduler, sa_base=sa_base,
        ml_utils=ml_utils, security=security,
        action_service=action_service))

    # ids
    _require(_uuid, 'uuid4')
    _uuid.uuid4 = IDS.uuid4

    db_api.setup_db()
    # oslo.db marks "BEGIN already emitted" on the connection record and
    # clears the mark on commit/rollback *events*; a pool-level reset (a
    # session dropped without commit and later garbage-collected) rolls the
    # connection back without those events and would leave the mark stale,
    # after which SQLite silently runs every statement in autocommit.  A
    # reset is a rollback: clear the mark there too.
    import sqlalchemy as _sa
    _sa.event.listen(sa_base.get_engine().pool, 'reset',
                     lambda dbapi_con, rec, *a: rec.info.pop(
                         'in_transaction', None))

    CTX = auth_context.MistralContext.from_dict({
        'user_name': 'u', 'user': '1',
        'tenant': security.DEFAULT_PROJECT_ID,
        'project_id': security.DEFAULT_PROJECT_ID,
        'project_name': 'p', 'is_admin': False})
    auth_context.set_ctx(CTX)
    timeutils.set_time_override(T0)

    engine = default_engine.DefaultEngine()
    endpoint = engine_server.EngineServer(engine, setup_profiler=False)

    # ---- bus
    _require(rpc_base, '_IMPL_CLIENT')
    _require(rpc_base, 'RPCClient')

    class BusClient(rpc_base.RPCClient):
        def __init__(self, conf):
            self.topic = getattr(conf, 'topic', None)

        def sync_call(self, ctx, method, target=None, **kwargs):
            W.rpc_log.append(('sync', method, _summ(kwargs)))
            return deliver(ctx, method, kwargs)

        def async_call(self, ctx, method, target=None, fanout=False,
                       **kwargs):
            W.rpc_log.append(('async', method, _summ(kwargs)))
            label = '%s:%s' % (method, _msg_label(method, kwargs))
            W.add(Ev('msg', label,
                     lambda: deliver(ctx, method, kwargs),
                     {'method': method, 'kwargs': kwargs, 'ctx': ctx}))

    rpc_clients.cleanup()
    rpc_base._IMPL_CLIENT = BusClient

    # ---- executor
    _require(exe_base, '_EXECUTORS')

    class VExecutor(exe_base.Executor):
        def run_action(self, action, action_ex_id, safe_rerun, exec_ctx,
                       redelivered=False, target=None, async_=True,
                       timeout=None):
            return _v_run_action(action, action_ex_id, safe_rerun, exec_ctx,
                                 redelivered, target, async_, timeout)

    exe_base._EXECUTORS['local'] = VExecutor()

    # ---- scheduler (never started)
    _require(sched_base, '_SCHEDULER')
    sched_base._SCHEDULER_IMPL = None
    sched_base._SCHEDULER = None
    sched = sched_base.get_system_scheduler()
    if scheduler_type == 'default':
        if not isinstance(sched, default_scheduler.DefaultScheduler):
            raise HarnessError('unexpected scheduler %r' % sched)
        for n in ('_heap', 'in_memory_jobs', '_process_memory_job',
                  '_process_store_jobs', '_invoke_job'):
            _require(sched, n)
        orig_invoke = default_scheduler.DefaultScheduler._invoke_job

        def _invoke_job(auth_ctx, func, args):
            return orig_invoke(auth_ctx, _recorder(func, 'job'), args)
        default_scheduler.DefaultScheduler._invoke_job = \
            staticmethod(_invoke_job)
    else:
        if not isinstance(sched, legacy_scheduler.LegacyScheduler):
            raise HarnessError('unexpected scheduler %r' % sched)
        for n in ('_prepare_calls', '_invoke_calls', 'delete_calls',
                  '_capture_calls'):
            _require(sched, n)
        orig_invoke_calls = legacy_scheduler.LegacyScheduler._invoke_calls

        def _invoke_calls(delayed_calls):
            return orig_invoke_calls(
                [(c, _recorder(m, 'job'), a) for (c, m, a) in delayed_calls])
        legacy_scheduler.LegacyScheduler._invoke_calls = \
            staticmethod(_invoke_calls)

    # ---- post-tx queue: capture the thread, split queues into operations
    _require(post_tx_queue, 'threading')
    _require(post_tx_queue, '_process_queue')
    _require(post_tx_queue, 'register_operation')

    class FakeThread(object):
        def __init__(self, target=None, args=(), kwargs=None):
            self.target = target

        def start(self):
            W.add(Ev('ptx', _queue_label(self.target), self.target))

    class FakeThreading(object):
        Thread = FakeThread

        def __getattr__(self, n):
            return getattr(threading, n)

    post_tx_queue.threading = FakeThreading()
    orig_pq = post_tx_queue._process_queue

    def _split_process_queue(queue):
        if not W.split_ptx or len(queue) <= 1:
            return orig_pq(queue)
        ctx = auth_context.ctx() if auth_context.has_ctx() else None
        chain = {'remaining': len(queue), 'parked': []}
        _chain_step(orig_pq, list(queue), ctx, chain)

    post_tx_queue._process_queue = _split_process_queue
    orig_reg = post_tx_queue.register_operation

    def _register_operation(func, args=None, in_tx=False):
        return orig_reg(_recorder(func, 'ptx-op'), args, in_tx)

    post_tx_queue.register_operation = _register_operation

    # ---- CAS log
    for fn in ('update_workflow_execution_state',
               'update_task_execution_state'):
        _require(db_api, fn)
        _wrap_cas(fn)

    # ---- forced failures (pure recording): a run failed by force while
    # other work is in flight is order dependent in the language itself
    from mistral.engine import workflow_handler as _wfh
    _require(_wfh, 'force_fail_workflow')
    _orig_ffw = _wfh.force_fail_workflow

    def _force_fail_workflow(wf_ex, msg=None):
        W.forced_fail += 1
        return _orig_ffw(wf_ex, msg)

    _wfh.force_fail_workflow = _force_fail_workflow

    action_service.get_system_action_provider()
    _memo_check_schema()
    _BOOTED = True


def _memo_check_schema():
    """jsonschema.validate() re-validates the (static) schema against the
    metaschema on every call (~0.14 s per spec object, 3 s per workflow).
    The outcome of that step depends on the schema only, so it is memoised
    per schema content; instance validation is unchanged."""
    import json
    import jsonschema
    from jsonschema import validators
    orig_validate = _require(jsonschema, 'validate')
    checked = {}

    def validate(instance, schema, cls=None, *args, **kwargs):
        if cls is not None or args or kwargs:
            return orig_validate(instance, schema, cls, *args, **kwargs)
        cls = validators.validator_for(schema)
        try:
            key = json.dumps(schema, sort_keys=True, default=repr)
        except Exception:
            return orig_validate(instance, schema)
        if key not in checked:
            cls.check_schema(schema)
            checked[key] = True
        validator = cls(schema)
        error = jsonschema.exceptions.best_match(
            validator.iter_errors(instance))
        if error is not None:
            raise error

    jsonschema.validate = validate


def arm_cas_loss(wf_ex_id, state, msg):
    """Fault injection below the transaction granularity: the next
    compare-and-swap of that workflow execution towards a final state loses
    against a concurrent operator stop.  The foreign commit is emulated by a
    direct UPDATE of the row (state, state_info, output) issued right before
    the compare-and-swap on the same connection, so that the ORM objects of
    the losing transaction stay stale - exactly what a transaction of
    another engine process committing in that window produces."""
    W.cas_loss = {'id': wf_ex_id, 'state': state, 'msg': msg}


def _maybe_lose_cas(fn, kw):
    inj = W.cas_loss
    if not inj or fn != 'update_workflow_execution_state' \
            or kw.get('id') != inj['id'] \
            or kw.get('state') not in ('SUCCESS', 'ERROR', 'CANCELLED') \
            or kw.get('state') == inj['state']:
        return
    # only what a concurrent operator stop could really have committed from
    # that state: any final state from RUNNING, CANCELLED from PAUSED
    possible = {'RUNNING': ('SUCCESS', 'ERROR', 'CANCELLED'),
                'PAUSED': ('CANCELLED',)}
    if inj['state'] not in possible.get(kw.get('cur_state'), ()):
        return
    import json
    import sqlalchemy as sa
    ses = _mods['sa_base']._get_thread_local_session()
    if ses is None:
        return
    W.cas_loss = None
    out = json.dumps({'result': inj['msg']})
    ses.execute(sa.text(
        'UPDATE workflow_executions_v2 SET state=:s, state_info=:m, '
        'output=:o, accepted=1 WHERE id=:i AND state=:c'),
        {'s': inj['state'], 'm': inj['msg'], 'o': out, 'i': inj['id'],
         'c': kw.get('cur_state')})
    W.cas.append({'fn': fn, 'id': inj['id'], 'from': kw.get('cur_state'),
                  'to': inj['state'], 'matched': True, 'step': W.step,
                  'event': W.cur_event, 'injected': True,
                  'output': {'result': inj['msg']}})


def _wrap_cas(fn):
    orig = getattr(db_api, fn)

    def wrapper(*a, **kw):
        _maybe_lose_cas(fn, kw)
        res = orig(*a, **kw)
        W.cas.append({'fn': fn, 'id': kw.get('id'),
                      'from': kw.get('cur_state'), 'to': kw.get('state'),
                      'matched': res is not None, 'step': W.step,
                      'event': W.cur_event})
        return res
    setattr(db_api, fn, wrapper)


def _summ(kwargs):
    out = {}
    for k, v in kwargs.items():
        if isinstance(v, (str, int, bool, type(None))):
            out[k] = v
        else:
            out[k] = type(v).__name__
    return out


def _msg_label(method, kw):
    for k in ('task_ex_id', 'action_ex_id', 'wf_ex_id', 'wf_identifier'):
        if k in kw and kw[k]:
            return str(kw[k])[-6:]
    return ''


def _chain_step(orig_pq, rest, ctx, chain):
    """Run the head operation of a split post-tx queue with the real loop."""
    op = rest[0]
    tail = rest[1:]
    prev_chain = W.chain
    W.chain = chain
    chain['remaining'] = len(tail)
    ok = False
    try:
        orig_pq([op])
        ok = True
    finally:
        W.chain = prev_chain
        if not ok:
            # an exception escaping an in-tx op drops the rest of the queue
            chain['remaining'] = 0
            tail = []
        if tail:
            def cont():
                old = auth_context.ctx() if auth_context.has_ctx() else None
                auth_context.set_ctx(ctx)
                try:
                    _chain_step(orig_pq, tail, ctx, chain)
                finally:
                    auth_context.set_ctx(old)
            ev = Ev('ptx', _op_label(tail[0]), cont, {'chain': True})
            W.seq += 1
            ev.seq = W.seq
            ev.meta['born'] = W.step
            W.events.append(ev)
        else:
            for ev in chain['parked']:
                W.events.append(ev)
            chain['parked'] = []


def _queue_label(target):
    """Label of a captured post-tx thread: the name of its first
    operation (read from the closure of the thread target)."""
    try:
        for cell in (target.__closure__ or ()):
            v = cell.cell_contents
            if isinstance(v, list) and v and isinstance(v[0], tuple):
                return _op_label(v[0])
    except Exception:
        pass
    return 'queue'


def _op_label(op):
    f = op[0]
    name = getattr(f, '_mv_name', None) or getattr(f, '__name__', 'op')
    return name


def _innermost_mistral_frame(tb):
    frames = traceback.extract_tb(tb)
    for fr in reversed(frames):
        if '/mistral/' in fr.filename and '/verif/' not in fr.filename:
            return '%s:%s:%s' % (fr.filename.split('/mistral/', 1)[1],
                                 fr.name, fr.lineno)
    return None


def _recorder(func, where):
    name = getattr(func, '__name__', str(func))

    def rec(*a, **kw):
        try:
            return func(*a, **kw)
        except Exception as e:
            W.swallowed.append({
                'where': where, 'func': name, 'type': type(e).__name__,
                'mro': [c.__name__ for c in type(e).__mro__],
                'msg': str(e)[:300], 'step': W.step,
                'frame': _innermost_mistral_frame(e.__traceback__)})
            raise
    rec._mv_name = name
    rec.__name__ = name
    return rec


def deliver(ctx, method, kwargs):
    """Deliver an RPC message to the real EngineServer."""
    pq = _mods['post_tx_queue']
    ml_utils = _mods['ml_utils']
    nested = ml_utils.get_thread_local(pq._THREAD_LOCAL_NAME) is not None
    in_tx = _mods['sa_base']._get_thread_local_session() is not None

    def call():
        old = auth_context.ctx() if auth_context.has_ctx() else None
        auth_context.set_ctx(ctx)
        try:
            return getattr(endpoint, method)(ctx, **kwargs)
        except Exception as e:
            # what the RPC *server* method raised, before the client-side
            # decorator (rpc.base.wrap_messaging_exception) turns anything
            # into a MistralException: pure recording
            W.server_errors.append({
                'step': W.step, 'kind': 'rpc', 'label': method,
                'type': type(e).__name__,
                'mro': [c.__name__ for c in type(e).__mro__],
                'msg': str(e)[:400],
                'frame': _innermost_mistral_frame(e.__traceback__)})
            raise
        finally:
            auth_context.set_ctx(old)

    if not nested and not in_tx:
        return call()
    if in_tx:
        raise HarnessError('sync RPC inside an open transaction: %s' % method)
    box = {}
    w = W

    def run():
        try:
            box['r'] = call()
        except BaseException as e:  # noqa
            box['e'] = e

    t = threading.Thread(target=run)
    t.start()
    t.join(120)
    if t.is_alive():
        raise HarnessError('sync call did not return: %s' % method)
    assert w is W
    if 'e' in box:
        raise box['e']
    return box.get('r')


def _v_run_action(action, action_ex_id, safe_rerun, exec_ctx, redelivered,
                  target, async_, timeout):
    info = {'action_ex_id': action_ex_id, 'cls': type(action).__name__,
            'safe_rerun': safe_rerun, 'timeout': timeout, 'target': target,
            'step': W.step}
    with db_api.transaction():
        a = db_api.load_action_execution(action_ex_id)
        if a is None:
            info['missing'] = True
            tname, idx, tid = None, 0, None
        else:
            t = a.task_execution
            tname = t.name if t else None
            tid = t.id if t else None
            idx = (a.runtime_context or {}).get('index', 0)
            info['input'] = dict(a.input or {})
            info['wf_ex_id'] = t.workflow_execution_id if t else None
    info.update(task=tname, index=idx, task_id=tid)
    W.dispatch_count[action_ex_id] = W.dispatch_count.get(action_ex_id, 0) + 1
    n = W.nact.get((tname, idx), 0)
    W.nact[(tname, idx)] = n + 1
    info['attempt'] = n
    W.actions[action_ex_id] = info
    kind, val = W.outcome(tname, idx, n, info) if W.outcome else ('ok', None)
    if kind == 'real':
        try:
            res = action.run(None)
            if not isinstance(res, ml_actions.Result):
                res = ml_actions.Result(data=res)
        except Exception as e:
            res = ml_actions.Result(error=str(e))
    elif kind == 'ok':
        res = ml_actions.Result(data=val)
    elif kind == 'err':
        res = ml_actions.Result(error=val)
    elif kind == 'cancel':
        res = ml_actions.Result(error=val, cancel=True)
    elif kind == 'never':
        W.inflight[action_ex_id] = info
        return None
    else:
        raise HarnessError('bad outcome kind %r' % (kind,))
    info['result'] = (kind, res.data if res.is_success() else res.error)

    def complete():
        return rpc_clients.get_engine_client().on_action_complete(
            action_ex_id, res)
    W.add(Ev('act', '%s[%s]#%s=%s' % (tname, idx, n, kind), complete,
             {'action_ex_id': action_ex_id, 'task': tname, 'index': idx,
              'attempt': n, 'result': res}))
    return None


# --------------------------------------------------------------------------
# reset

_TABLES = None


def reset(salt=0, split_ptx=True):
    """Bring the world back to an empty DB at T0."""
    global W, _TABLES
    from mistral.db.sqlalchemy import sqlite_lock
    from mistral.db.v2.sqlalchemy import models  # noqa
    import sqlalchemy as sa
    neww = World()
    neww.split_ptx = split_ptx
    W = neww
    auth_context.set_ctx(CTX)
    sa_base = _mods['sa_base']
    if sa_base._get_thread_local_session() is not None:
        try:
            sa_base.end_tx()
        except Exception:
            sa_base._set_thread_local_session(None)
    eng = sa_base.get_engine()
    if _TABLES is None:
        insp = sa.inspect(eng)
        # mistral_metrics holds the cluster maintenance status row that
        # setup_db() creates: keep it
        _TABLES = [t for t in insp.get_table_names()
                   if t not in ('alembic_version', 'mistral_metrics')]
    with eng.begin() as conn:
        conn.execute(sa.text('PRAGMA foreign_keys=OFF'))
        for t in _TABLES:
            if t in ('action_definitions_v2',):
                # keep system actions? (none are stored with builtin provider)
                pass
            conn.execute(sa.text('DELETE FROM %s' % t))
        conn.execute(sa.text('PRAGMA foreign_keys=ON'))
    spec_parser.clear_caches()
    sqlite_lock.cleanup()
    if hasattr(sched, '_heap'):
        sched._heap = []
        sched.in_memory_jobs = {}
        sched._seq = 0
    timeutils.set_time_override(T0)
    IDS.reset(salt)


def now():
    return timeutils.utcnow()


def clear_spec_caches():
    spec_parser.clear_caches()
    from mistral.lang import base as lang_base
    if hasattr(lang_base, '_POLYMORPHIC_CACHE'):
        try:
            lang_base._POLYMORPHIC_CACHE.clear()
        except Exception:
            pass


# --------------------------------------------------------------------------
# scheduler drivers: what is due, how to run one job

def _is_integrity(func_name):
    return func_name == INTEGRITY_FN


def pending_timers():
    """[(when, func_name, handle)] of every job not yet run."""
    out = []
    if hasattr(sched, '_heap'):
        for (when, seq, job) in sorted(sched._heap, key=lambda e: e[:2]):
            try:
                fn = job.func_name
            except Exception:
                # the in-memory job object lost its state (expired and
                # detached); the real dispatcher would still try to run it
                fn = '<expired-job-object>'
            out.append((when, fn, (when, seq, job)))
    else:
        with db_api.transaction():
            calls = db_api.get_delayed_calls(processing=False,
                                             sort_keys=['execution_time'])
            for c in calls:
                out.append((c.execution_time, c.target_method_name, c.id))
    return out


def due_jobs():
    t = now()
    if hasattr(sched, '_heap'):
        return [p for p in pending_timers() if p[0] <= t]
    # legacy scheduler picks calls up to one second early
    lim = t + datetime.timedelta(seconds=1)
    return [p for p in pending_timers() if p[0] < lim]


def run_job(handle):
    """Run one due job through the real scheduler code."""
    try:
        if hasattr(sched, '_heap'):
            sched._heap.remove(handle)
            heapq.heapify(sched._heap)
            if W.split_job_delete:
                # the real scheduler invokes a job and deletes its row in
                # two transactions: other engine threads may run in between
                # while the row is still there, marked as captured.  The
                # deletion becomes an event of its own.
                orig_del = sched._delete_scheduled_job

                def later(job, _orig=orig_del):
                    W.add(Ev('del', '_delete_scheduled_job',
                             lambda: _orig(job), {'split_job': True}))
                sched._delete_scheduled_job = later
                try:
                    sched._process_memory_job(handle[2])
                finally:
                    del sched._delete_scheduled_job
            else:
                sched._process_memory_job(handle[2])
        else:
            with db_api.transaction():
                # load first (as get_delayed_calls_to_start does) so the
                # detached object keeps its attributes after the commit
                loaded = db_api.get_delayed_calls(id=handle)
                if not loaded:
                    return
                db_call, cnt = db_api.update_delayed_call(
                    id=handle, values={'processing': True},
                    query_filter={'processing': False})
            if cnt != 1:
                return
            prepared = sched._prepare_calls([db_call])
            sched._invoke_calls(prepared)
            if W.split_job_delete:
                W.add(Ev('del', 'delete_calls',
                         lambda: sched.delete_calls([db_call]),
                         {'split_job': True}))
            else:
                sched.delete_calls([db_call])
    finally:
        auth_context.set_ctx(CTX)


# --------------------------------------------------------------------------
# stepping

class Choice(object):
    __slots__ = ('kind', 'label', 'ref')

    def __init__(self, kind, label, ref):
        self.kind = kind
        self.label = label
        self.ref = ref

    def __repr__(self):
        return '%s:%s' % (self.kind, self.label)


def enabled(early_clock=False, integrity=False):
    """Events that may run next, in a canonical (FIFO) order."""
    out = [Choice(e.kind, e.label, e) for e in W.events]
    due = due_jobs()
    for (when, fn, h) in due:
        if _is_integrity(fn) and not integrity:
            continue
        out.append(Choice('job', fn.rsplit('.', 1)[-1], h))
    timers = [p for p in pending_timers()
              if p[0] > now() and (integrity or not _is_integrity(p[1]))]
    if hasattr(sched, '_heap') is False:
        lim = now() + datetime.timedelta(seconds=1)
        timers = [p for p in timers if p[0] >= lim]
    if timers and (early_clock or not out):
        out.append(Choice('clock', str((timers[0][0] - T0).total_seconds()),
                          timers[0][0]))
    return out


def fire(choice):
    """Run one event; exceptions are recorded, never propagated."""
    W.step += 1
    rec = {'step': W.step, 'kind': choice.kind, 'label': choice.label,
           't': (now() - T0).total_seconds()}
    W.cur_event = (W.step, choice.kind, choice.label)
    W.trace.append(rec)
    try:
        if choice.kind == 'clock':
            timeutils.set_time_override(choice.ref)
        elif choice.kind == 'job':
            run_job(choice.ref)
        else:
            W.events.remove(choice.ref)
            rec['meta'] = {k: v for k, v in choice.ref.meta.items()
                           if isinstance(v, (str, int, bool, type(None)))}
            if isinstance(choice.ref.meta.get('kwargs'), dict):
                rec['kw'] = _summ(choice.ref.meta['kwargs'])
            choice.ref.thunk()
    except HarnessError:
        raise
    except Exception as e:
        err = {'step': W.step, 'kind': choice.kind, 'label': choice.label,
               'type': type(e).__name__,
               'mro': [c.__name__ for c in type(e).__mro__],
               'msg': str(e)[:400],
               'frame': _innermost_mistral_frame(e.__traceback__)}
        rec['exc'] = err['type']
        W.errors.append(err)
    finally:
        auth_context.set_ctx(CTX)
        W.cur_event = None
        _cleanup_session()
    return rec


def _cleanup_session():
    sa_base = _mods['sa_base']
    if sa_base._get_thread_local_session() is not None:
        try:
            sa_base.end_tx()
        except Exception:
            sa_base._set_thread_local_session(None)


def call(fn, *a, **kw):
    """Run a harness-initiated engine call (operator command) as an event."""
    W.step += 1
    label = getattr(fn, '__name__', 'call')
    rec = {'step': W.step, 'kind': 'cmd', 'label': label,
           't': (now() - T0).total_seconds()}
    W.cur_event = (W.step, 'cmd', label)
    W.trace.append(rec)
    try:
        return ('ok', fn(*a, **kw))
    except HarnessError:
        raise
    except Exception as e:
        rec['exc'] = type(e).__name__
        return ('exc', e)
    finally:
        auth_context.set_ctx(CTX)
        W.cur_event = None
        _cleanup_session()


# --------------------------------------------------------------------------
# snapshots

def _canon(v):
    import json
    return json.dumps(v, sort_keys=True, default=str)


def snapshot(full=False):
    """All execution rows, as plain dicts keyed by id."""
    snap = {'wf': {}, 'task': {}, 'action': {}}
    prev_ctx = auth_context.ctx() if auth_context.has_ctx() else None
    auth_context.set_ctx(_admin_ctx())
    try:
        _snapshot_into(snap, full)
    finally:
        auth_context.set_ctx(prev_ctx)
    return snap


def _admin_ctx():
    return auth_context.MistralContext(user_id=None, project_id=None,
                                       auth_token=None, is_admin=True)


def _snapshot_into(snap, full):
    with db_api.transaction():
        for w in db_api.get_workflow_executions(sort_keys=[]):
            snap['wf'][w.id] = {
                'id': w.id, 'name': w.workflow_name, 'state': w.state,
                'state_info': w.state_info, 'accepted': w.accepted,
                'output': _plain(w.output), 'input': _plain(w.input),
                'task_execution_id': w.task_execution_id,
                'root_execution_id': w.root_execution_id,
                'params': _plain(w.params),
                'context': _plain(w.context) if full else None,
                'runtime_context': _plain(w.runtime_context),
                'created_at': str(w.created_at),
            }
        for t in db_api.get_task_executions(sort_keys=[]):
            snap['task'][t.id] = {
                'id': t.id, 'name': t.name, 'state': t.state,
                'state_info': t.state_info, 'processed': t.processed,
                'wf_ex_id': t.workflow_execution_id,
                'next_tasks': _plain(t.next_tasks),
                'has_next_tasks': t.has_next_tasks,
                'error_handled': t.error_handled,
                'published': _plain(t.published),
                'in_context': _plain(t.in_context) if full else None,
                'runtime_context': _plain(t.runtime_context),
                'unique_key': t.unique_key, 'type': t.type,
                'spec_with_items': bool((t.spec or {}).get('with-items')),
                'spec_join': (t.spec or {}).get('join'),
                'created_at': str(t.created_at),
            }
        for a in db_api.get_action_executions(sort_keys=[]):
            snap['action'][a.id] = {
                'id': a.id, 'name': a.name, 'state': a.state,
                'accepted': a.accepted, 'output': _plain(a.output),
                'input': _plain(a.input),
                'task_execution_id': a.task_execution_id,
                'index': (a.runtime_context or {}).get('index'),
                'is_sync': a.is_sync,
                'last_heartbeat': str(a.last_heartbeat),
                'created_at': str(a.created_at),
            }
    return snap


def _plain(v):
    import json
    if v is None:
        return None
    return json.loads(json.dumps(v, default=str))


# --------------------------------------------------------------------------
# convenience

def create_workflows(text, **kw):
    return wf_service.create_workflows(text, **kw)


def start_workflow(name, wf_input=None, **params):
    """Start via the real engine entry point, as the API does (sync call)."""
    return call(rpc_clients.get_engine_client().start_workflow,
                name, wf_input=wf_input or {}, **params)
