"""C17 A cron trigger fires once per due time and never more than its count.

baton model: 1..3 processors run the real periodic.process_cron_triggers_v2
as worker threads over one store.  Yield points: before advance_cron_trigger,
*inside* the update/delete transaction right after the trigger row was read
(statement level, see baton.NoLock), before the trust context is built and
before start_workflow.  A drawn plan spawns passes, steps / crashes / finishes
workers and moves a virtual clock (seconds to days).  Keystone is stubbed (one
trust per trigger); the engine client is a recorder that stores every
start_workflow call with the security context it was made under.

Oracle: invariants over the log of (advance attempts, start_workflow calls,
row snapshots) against the trigger definitions — see RULE / check_case.
"""
import datetime
import json
import threading
import time

from mv import runner
from mv.props import common

PROP = 'C17'
RULE = ('case = 1..3 cron triggers (pattern from a pool incl. second-level '
        'patterns / first_execution_time only / both; count none,1,2,3; two '
        'projects, possibly the same trigger name in both) + start clock '
        'offset + plan of {spawn a processor pass (<=3 alive), step / finish '
        '/ crash a processor at a yield point, move the clock to -2 .. +1 s '
        'around the earliest stored due time, advance the clock by 1 s .. 3 '
        'days}; then survivors finish and two uncontended passes run. '
        'Non-trivial = >= 2 processors attempted the same occurrence of a '
        'trigger, or a processor was parked inside the update/delete '
        'transaction while another one committed, or a crash between '
        'advance and start, or a count was exhausted; distinct = hash(case)')

PATTERNS = ['* * * * *', '*/2 * * * *', '*/5 * * * *', '0 * * * *',
            '15 3 * * *', '* * * * * */20', '0 0 1 * *', '*/3 * * * 1-5']
ADV = [1, 2, 30, 59, 60, 61, 120, 600, 3600, 86400, 3 * 86400]

LOG = []          # per case
CUR = {'B': None}
_INSTALLED = [False]
NONCE = [0]


class _Obj(object):
    def __init__(self, **kw):
        self.__dict__.update(kw)


def _install():
    if _INSTALLED[0]:
        return
    from mv import sim, baton as bt
    from mistral.services import periodic, security
    from mistral.db.v2.sqlalchemy import api as sapi
    from mistral.utils.openstack import keystone
    sa_base = sim._mods['sa_base']
    for mod, name in ((periodic, 'advance_cron_trigger'),
                      (security, 'create_context'),
                      (security, 'create_trust'),
                      (keystone, 'client_for_trusts'),
                      (sapi, 'get_cron_trigger'),
                      (periodic.rpc, 'get_engine_client'),
                      (sa_base, 'tx_lock')):
        if not hasattr(mod, name):
            raise sim.HarnessError('patch point missing: %s.%s' %
                                   (mod.__name__, name))
    sa_base.tx_lock = bt.NoLock()
    trust_n = [0]

    def create_trust():
        trust_n[0] += 1
        return _Obj(id='trust-%d-%d' % (NONCE[0], trust_n[0]))
    security.create_trust = create_trust

    class _Trusts(object):
        def delete(self, trust_id):
            LOG.append(('trust_deleted', trust_id))

    def client_for_trusts(trust_id):
        return _Obj(session=None, auth_token='tok:%s' % trust_id,
                    user_id='usr:%s' % trust_id, trusts=_Trusts())
    keystone.client_for_trusts = client_for_trusts

    orig_adv = periodic.advance_cron_trigger

    def adv(t):
        B = CUR['B']
        if B is not None:
            B.yield_point('before:advance')
        read = (t.id, t.next_execution_time, t.remaining_executions)
        # the next time is computed from the clock right here, before the
        # thread can be parked again
        at = sim.now()
        ok = orig_adv(t)
        LOG.append(('adv', threading.current_thread().name, read[0], read[1],
                    read[2], bool(ok), at))
        return ok
    periodic.advance_cron_trigger = adv

    orig_cc = security.create_context

    def cc(trust_id, project_id):
        B = CUR['B']
        if B is not None:
            B.yield_point('before:context')
        return orig_cc(trust_id, project_id)
    security.create_context = cc

    orig_get = sapi.get_cron_trigger

    def get_cron_trigger(*a, **kw):
        r = orig_get(*a, **kw)
        B = CUR['B']
        if B is not None and \
                sa_base._get_thread_local_session() is not None:
            # the row has been read, the conditional UPDATE / the DELETE
            # of the same transaction has not been issued yet
            B.yield_point('in-tx:after-read', in_tx=True)
        return r
    sapi.get_cron_trigger = get_cron_trigger

    class Recorder(object):
        def start_workflow(self, wf_identifier, wf_namespace='', wf_ex_id=None,
                           wf_input=None, description='', async_=False,
                           **params):
            B = CUR['B']
            if B is not None:
                B.yield_point('before:start')
            c = sim.auth_context.ctx() if sim.auth_context.has_ctx() else None
            LOG.append(('start', threading.current_thread().name,
                        wf_identifier, wf_namespace, wf_ex_id,
                        json.loads(json.dumps(wf_input)), description,
                        json.loads(json.dumps(params)),
                        None if c is None else {
                            'project_id': c.project_id,
                            'trust_id': c.trust_id,
                            'is_trust_scoped': c.is_trust_scoped,
                            'is_admin': c.is_admin,
                            'auth_token': c.auth_token,
                            'user_id': c.user_id}, sim.now()))
            return {}
    rec = Recorder()
    periodic.rpc.get_engine_client = lambda: rec

    orig_exc = periodic.LOG.exception

    def log_exception(msg, *a, **kw):
        import sys
        e = sys.exc_info()[1]
        LOG.append(('logged_exception', threading.current_thread().name,
                    '%s: %s' % (type(e).__name__, str(e)[:300])))
        return orig_exc(msg, *a, **kw)
    periodic.LOG.exception = log_exception
    _INSTALLED[0] = True


WF = """version: '2.0'
wf:
  input:
    - x
    - y: 1
  tasks:
    t:
      action: std.noop
"""


def gen_case(D):
    n = D.int(1, 3)
    trigs = []
    for i in range(n):
        shape = D.choice(['pattern', 'pattern', 'first', 'both'])
        t = {'project': D.choice(['pa', 'pb']),
             'name': D.choice(['trg', 'trg', 'other']),
             'pattern': None, 'first': None, 'count': None,
             'input': {'x': 10 * i + D.int(0, 3)}, 'params': {}}
        # (the store refuses two triggers of a project that agree on
        # workflow, input, params, pattern, first time and count)
        if D.bool(0.3):
            t['input']['y'] = D.int(2, 5)
        if D.bool(0.4):
            t['params'] = {'env': {'k': D.int(0, 9)}}
        if shape in ('pattern', 'both'):
            t['pattern'] = D.choice(PATTERNS)
        if shape in ('first', 'both'):
            t['first'] = D.int(2, 4)        # whole minutes ahead
        if shape == 'first':
            t['count'] = D.choice([None, 1])
            if D.bool(0.3):
                # "no pattern" as an empty string (what a form or a CLI with
                # an empty option sends): accepted, first-time-only as well
                t['pattern'] = ''
        else:
            t['count'] = D.choice([None, None, 1, 2, 3])
        if any(o['project'] == t['project'] and o['name'] == t['name']
               for o in trigs):
            t['name'] = '%s%d' % (t['name'], i)
        trigs.append(t)
    plan = []
    for _ in range(D.int(4, 24)):
        r = D.int(0, 11)
        if r < 3:
            plan.append(['spawn'])
        elif r < 7:
            plan.append(['step', D.int(0, 5)])
        elif r < 8:
            plan.append(['finish', D.int(0, 5)])
        elif r < 9:
            plan.append(['crash', D.int(0, 5)])
        elif r < 10:
            # to the neighbourhood of the earliest stored due time: 2 s / 1 s
            # before it (inside the processors' look-ahead), exactly on it,
            # just after it
            plan.append(['advance_due', D.choice([-2, -1, -1, 0, 1])])
        else:
            plan.append(['advance', D.choice(ADV)])
    return {'offset': D.int(0, 59), 'triggers': trigs, 'plan': plan}


def _parse(ts):
    if ts is None or isinstance(ts, datetime.datetime):
        return ts
    for f in ('%Y-%m-%d %H:%M:%S.%f', '%Y-%m-%d %H:%M:%S'):
        try:
            return datetime.datetime.strptime(ts, f)
        except ValueError:
            pass
    raise ValueError(ts)


def _rows(sim):
    import sqlalchemy as sa
    eng = sim._mods['sa_base'].get_engine()
    out = {}
    with eng.connect() as conn:
        for r in conn.execute(sa.text(
                'SELECT id, name, project_id, next_execution_time, '
                'remaining_executions, trust_id FROM cron_triggers_v2')):
            out[r[0]] = {'name': r[1], 'project': r[2], 'next': _parse(r[3]),
                         'remaining': r[4], 'trust': r[5]}
    return out


def check_case(case, stats=None):
    from mv import sim, baton as bt, rest
    from mistral.services import periodic, triggers
    import croniter
    _install()
    NONCE[0] += 1
    sim.reset(salt=NONCE[0])
    del LOG[:]
    B = bt.Baton()
    CUR['B'] = B
    try:
        return _run(case, stats, sim, bt, rest, periodic, triggers, croniter,
                    B)
    finally:
        CUR['B'] = None
        sim.auth_context.set_ctx(sim.CTX)


def _run(case, stats, sim, bt, rest, periodic, triggers, croniter, B):
    start = sim.T0 + datetime.timedelta(seconds=case['offset'])
    sim.timeutils.set_time_override(start)
    viol = []
    defs = {}      # trigger id -> definition (+ observed creation values)
    for proj in sorted({t['project'] for t in case['triggers']}):
        sim.auth_context.set_ctx(rest.make_ctx(proj))
        sim.wf_service.create_workflows(WF)
    for t in case['triggers']:
        sim.auth_context.set_ctx(rest.make_ctx(t['project']))
        first = None
        if t['first'] is not None:
            base = start.replace(second=0, microsecond=0)
            first = base + datetime.timedelta(minutes=t['first'])
        trig = triggers.create_cron_trigger(
            t['name'], 'wf', dict(t['input']), dict(t['params']),
            t['pattern'], first, t['count'])
        cnt = t['count']
        if first is not None and not t['pattern'] and not cnt:
            cnt = 1
        defs[trig.id] = dict(t, id=trig.id, first_time=first, limit=cnt,
                             trust=trig.trust_id,
                             created_next=trig.next_execution_time)
    sim.auth_context.set_ctx(None)
    history = {tid: [(r['next'], r['remaining'])]
               for tid, r in _rows(sim).items()}
    if set(history) != set(defs):
        raise sim.HarnessError('created triggers not all stored')
    gone_at = {}

    def observe():
        rows = _rows(sim)
        for tid in defs:
            if tid in rows:
                cur = (rows[tid]['next'], rows[tid]['remaining'])
                if history[tid][-1] != cur:
                    history[tid].append(cur)
                if tid in gone_at:
                    viol.append({'kind': 'deleted-trigger-came-back',
                                 'detail': {'trigger': tid}})
            elif tid not in gone_at:
                gone_at[tid] = len(LOG)

    workers = []
    crashed_at = {}     # worker name -> label it was parked at
    in_tx_parks = [0]

    def spawn():
        w = B.spawn('proc-%d' % len(workers),
                    lambda: periodic.process_cron_triggers_v2(None, None))
        workers.append(w)
        return w

    def live():
        return [w for w in workers if not w.done]

    def note_park(w):
        if w.at == 'in-tx:after-read':
            in_tx_parks[0] += 1

    for op in case['plan']:
        k = op[0]
        if k == 'spawn':
            if len(live()) < 3:
                note_park(spawn())
        elif k in ('step', 'finish', 'crash'):
            lv = live()
            if not lv:
                continue
            w = lv[op[1] % len(lv)]
            if k == 'step':
                B.step(w)
                note_park(w)
            elif k == 'finish':
                B.finish(w)
            else:
                crashed_at[w.name] = w.at
                B.crash(w)
        elif k == 'advance':
            sim.timeutils.set_time_override(
                sim.now() + datetime.timedelta(seconds=op[1]))
        elif k == 'advance_due':
            nxt = [r['next'] for r in _rows(sim).values() if r['next']]
            if nxt:
                target = min(nxt) + datetime.timedelta(seconds=op[1])
                if target > sim.now():      # the clock only moves forward
                    sim.timeutils.set_time_override(target)
        observe()
    for w in live():
        B.finish(w)
        observe()
    # two uncontended passes: the first must fire everything that is due
    finals = []
    for extra in (0, 61):
        if extra:
            sim.timeutils.set_time_override(
                sim.now() + datetime.timedelta(seconds=extra))
        before = _rows(sim)
        now = sim.now()
        due = {tid: r['next'] for tid, r in before.items()
               if r['next'] < now + datetime.timedelta(seconds=2)}
        w = spawn()
        B.finish(w)
        observe()
        finals.append((w.name, due, now))
    sim.auth_context.set_ctx(None)

    # ---------------- oracle
    advs = [e for e in LOG if e[0] == 'adv']
    starts = [e for e in LOG if e[0] == 'start']
    won = {}
    attempts = {}
    for (_, who, tid, rnext, rrem, ok, when) in advs:
        attempts.setdefault((tid, rnext), set()).add(who)
        if ok:
            won.setdefault((tid, rnext), []).append((who, when, rrem))
    for key, ws in sorted(won.items(), key=str):
        if len(ws) > 1:
            viol.append({'kind': 'occurrence-won-by-two-processors',
                         'detail': {'trigger': defs[key[0]]['name'],
                                    'due': str(key[1]),
                                    'winners': [w[0] for w in ws]}})
    # starts per worker must follow that worker's wins, in order
    for w in workers:
        wins = [e for e in advs if e[1] == w.name and e[5]]
        sts = [e for e in starts if e[1] == w.name]
        st_ids = []
        for s in sts:
            try:
                st_ids.append(json.loads(s[6])['triggered_by']['id'])
            except Exception:
                st_ids.append(None)
        win_ids = [e[2] for e in wins]
        if w.crashed:
            okay = st_ids == win_ids[:len(st_ids)] and \
                len(win_ids) - len(st_ids) <= 1
        else:
            okay = st_ids == win_ids
        if not okay:
            viol.append({'kind': 'starts-do-not-match-won-occurrences',
                         'detail': {'processor': w.name,
                                    'crashed': w.crashed,
                                    'won': [defs[i]['name'] for i in win_ids],
                                    'started': [defs.get(i, {}).get('name', i)
                                                for i in st_ids]}})
        if w.error is not None:
            viol.append({'kind': 'processing-pass-raised',
                         'detail': {'processor': w.name, 'error': '%s: %s' % (
                             type(w.error).__name__, str(w.error)[:200])}})
    for s in starts:
        (_, who, wf_id, ns, ex_id, wf_input, descr, params, ctx, when) = s
        try:
            tid = json.loads(descr)['triggered_by']['id']
            ttype = json.loads(descr)['triggered_by']['type']
        except Exception:
            tid = ttype = None
        d = defs.get(tid)
        if d is None or ttype != 'cron_trigger':
            viol.append({'kind': 'start-without-trigger-reference',
                         'detail': {'description': descr}})
            continue
        bad = {}
        if wf_id != 'wf' or (ns or '') != '':
            bad['workflow'] = [wf_id, ns]
        if wf_input != d['input']:
            bad['input'] = [wf_input, d['input']]
        if params != d['params']:
            bad['params'] = [params, d['params']]
        if ctx is None or ctx['project_id'] != d['project']:
            bad['project'] = [ctx and ctx['project_id'], d['project']]
        if ctx is not None and (ctx['trust_id'] != d['trust'] or
                                not ctx['is_trust_scoped'] or
                                ctx['auth_token'] != 'tok:%s' % d['trust']):
            bad['trust'] = [ctx['trust_id'], d['trust'],
                            ctx['is_trust_scoped'], ctx['auth_token']]
        if bad:
            viol.append({'kind': 'workflow-started-with-wrong-arguments',
                         'detail': {'trigger': d['name'],
                                    'project': d['project'], 'wrong': bad}})
    # count, removal, monotone walk along the pattern
    exhausted = False
    for tid, d in defs.items():
        fired = sorted([(w[0][1], k[1]) for k, w in won.items()
                        if k[0] == tid])
        nfired = sum(len(w) for k, w in won.items() if k[0] == tid)
        if d['limit'] and nfired > d['limit']:
            viol.append({'kind': 'fired-more-than-count',
                         'detail': {'trigger': d['name'], 'count': d['limit'],
                                    'fired': nfired}})
        if d['limit'] and nfired >= d['limit']:
            exhausted = True
            if tid not in gone_at:
                viol.append({'kind': 'exhausted-trigger-not-removed',
                             'detail': {'trigger': d['name'],
                                        'count': d['limit']}})
        if tid in gone_at and not (d['limit'] and nfired >= d['limit']):
            viol.append({'kind': 'trigger-removed-before-count',
                         'detail': {'trigger': d['name'], 'count': d['limit'],
                                    'fired': nfired}})
        h = history[tid]
        first_expected = d['first_time'] if d['first_time'] is not None \
            else None
        if first_expected is not None and h[0][0] != first_expected:
            viol.append({'kind': 'first-execution-time-not-used',
                         'detail': {'trigger': d['name'],
                                    'stored': str(h[0][0]),
                                    'first': str(first_expected)}})
        for (p, prem), (n, nrem) in zip(h, h[1:]):
            # the advance that produced n: the win on occurrence p
            w = won.get((tid, p))
            at = w[0][1] if w else None
            problems = []
            if n <= p:
                problems.append('not-forward')
            if not d['pattern']:
                problems.append('no-pattern-but-advanced')
            elif at is not None:
                base = max(at, p)
                if not croniter.croniter.match(d['pattern'], n):
                    problems.append('not-on-pattern')
                if n <= base:
                    problems.append('not-after-now')
                prev = croniter.croniter(d['pattern'], n).get_prev(
                    datetime.datetime)
                if prev > base:
                    problems.append('skipped-%s' % prev)
            else:
                problems.append('advanced-without-a-winner')
            if prem is not None and nrem != prem - 1:
                problems.append('remaining %s -> %s' % (prem, nrem))
            if prem is None and nrem is not None:
                problems.append('remaining None -> %s' % nrem)
            if problems:
                viol.append({'kind': 'next-execution-time-walk-wrong',
                             'detail': {'trigger': d['name'],
                                        'pattern': d['pattern'],
                                        'from': str(p), 'to': str(n),
                                        'advanced_at': str(at),
                                        'problems': problems}})
    # every occurrence that was due when an uncontended pass started fired
    for (who, due, now) in finals:
        for tid, nxt in due.items():
            ws = won.get((tid, nxt), [])
            if not ws:
                viol.append({'kind': 'due-occurrence-not-fired',
                             'detail': {'trigger': defs[tid]['name'],
                                        'due': str(nxt), 'now': str(now),
                                        'pass': who}})
    # lost occurrences (won, never started) only by a crash in between
    for key, ws in won.items():
        for (who, when, _) in ws:
            w = [x for x in workers if x.name == who][0]
            n_w = len([e for e in advs if e[1] == who and e[5]])
            n_s = len([e for e in starts if e[1] == who])
            if n_s < n_w and not w.crashed:
                viol.append({'kind': 'won-occurrence-never-started',
                             'detail': {'processor': who}})
    for e in LOG:
        if e[0] == 'logged_exception':
            viol.append({'kind': 'processing-logged-an-exception',
                         'detail': {'processor': e[1], 'error': e[2]}})
        if e[0] == 'trust_deleted':
            viol.append({'kind': 'trust-deleted-by-periodic-processing',
                         'detail': {'trust': e[1]}})
    if stats is not None:
        contested = any(len(v) >= 2 for v in attempts.values())
        crash_between = any(v in ('before:context', 'before:start')
                            for v in crashed_at.values())
        nontriv = contested or in_tx_parks[0] > 0 or crash_between or \
            exhausted
        tg = ['triggers_%d' % len(defs)]
        if contested:
            tg.append('contested_occurrence')
        if in_tx_parks[0]:
            tg.append('parked_inside_transaction')
        if crash_between:
            tg.append('crash_between_advance_and_start')
        if exhausted:
            tg.append('count_exhausted')
        if any(v == 'in-tx:after-read' for v in crashed_at.values()):
            tg.append('crash_inside_transaction')
        if any(d['first_time'] is not None and not d['pattern']
               for d in defs.values()):
            tg.append('first_time_only')
        if len({(d['name']) for d in defs.values()}) < len(defs):
            tg.append('same_name_two_projects')
        if any(op[0] == 'advance' and op[1] >= 3600 for op in case['plan']):
            tg.append('long_lag')
        stats.case(runner.fp(case), nontriv, tg,
                   {'case': case, 'fired': len(starts),
                    'advance_attempts': len(advs),
                    'yield_log': B.log[:40]})
    seen = set()
    out = []
    for v in viol:
        if v['kind'] in seen:
            continue
        seen.add(v['kind'])
        out.append(v)
    return out


def shard_main(shard, nshards, seed, tier, opts):
    from mv import sim
    from hypothesis import strategies as st_
    from mv.gen.draw import HDraw
    st = runner.Stats()
    sim.boot('default', auth_enable=True)

    @st_.composite
    def strat(draw):
        return gen_case(HDraw(draw))

    fail = runner.drive(strat(), lambda c: check_case(c, st),
                        opts.get('examples', 120), seed * 1000 + shard,
                        time_budget=opts.get('time_budget'),
                        shrink_budget=opts.get('shrink_budget', 150),
                        stats=st)
    return {'stats': st.to_dict(), 'failures': [fail] if fail else []}


def replay(path):
    from mv import sim
    f = common.replay_case(path)
    sim.boot('default', auth_enable=True)
    return check_case(f['case'])


def main(tier, seed):
    t0 = time.time()
    opts = {'examples': common.budget(tier, 360, 4000),
            'time_budget': common.budget(tier, 80, 1500),
            'shrink_budget': common.budget(tier, 120, 500)}
    results = runner.run_shards('mv.props.c17', 'shard_main', 16, seed, tier,
                                opts)
    stats = runner.Stats.merge([r['stats'] for r in results])
    herrs = [h for r in results for h in r['harness_errors']]
    failures = sorted([f for r in results for f in r['failures']],
                      key=lambda f: len(str(f)))
    return runner.finish(
        PROP, tier, seed, 'fault_enumeration', t0, stats, failures[:1],
        herrs, RULE,
        assumptions=[
            'processors are threads of one process over one in-memory SQLite '
            'store; interleaving granularity: read due triggers / advance '
            '(row read | conditional update or delete) / build context / '
            'start workflow; a thread parked inside a transaction has only '
            'read so far and sees the latest committed state afterwards '
            '(statement-level current-read semantics of a server database)',
            'a processor that dies after winning an occurrence and before '
            'start_workflow loses that occurrence (at-most-once by design): '
            'checked as "at most one start, missing only after such a crash"',
            'Keystone trusts are stubbed; the engine client is a recorder',
        ])
