"""C01 Every workflow run finishes with the outcome its definition prescribes.

Generated (program, input, outcome assignment, schedule) cases run on
simworld; oracle = termination + error discipline + membership of the
observed verdict in the reference semantics' set of allowed outcomes.
"""
import time

from mv import runner
from mv.props import common

PROP = 'C01'
RULE = ('cases = (direct|reverse program from the grammar, input flags, '
        'per-task outcome assignment, scheduler implementation, drawn '
        'schedule = base policy + <=k deviations, id salt); non-trivial = '
        'program has a fork/join/error route/guard/command/requires AND at '
        'some step >=2 events were enabled and the one taken was not the '
        'FIFO head; distinct = hash(program, outcomes, input, choices taken). '
        'Plus, for termination and error discipline only: the definitions '
        'bundled in the repository (yaml files, documentation, unit-test '
        'string constants) x guessed inputs of five JSON types x >=2 '
        'schedules; non-trivial there = a run with >=2 events enabled at some '
        'step and a non-FIFO choice taken')


def check_case(case, stats=None, known=None):
    """Run one case.  Returns a list of violations."""
    from mv import enginerun
    from mv.gen import workflows as G
    from mv.ref import wfsem
    prog = case['prog']
    model = wfsem.model_for(prog, case.get('input'), case['outcomes'])
    try:
        allowed = model.outcomes_set()
    except wfsem.TooBig:
        if stats:
            stats.counters['excluded_model_too_big'] += 1
        return []
    weak = False
    if model.retrigger_possible:
        # known finding shape: verdict oracle not applicable, but the run
        # must still terminate with declared errors only.
        if stats:
            stats.counters['excluded_known_shape_join_retrigger'] += 1
        weak = True
    if case.get('salt', 0) % 4 == 1:
        # one case in four: scheduler jobs delete their row in a later
        # event than the one that invoked them (as the real scheduler does,
        # in two transactions), so other events see captured rows
        case = dict(case, split_jobs=True)
    res = enginerun.run_case(case)
    viol = []
    tg = G.tags(prog, case['outcomes'])
    if case.get('split_jobs'):
        tg = tg + ['job_rows_deleted_in_a_later_event']
    if res.start_error is not None:
        e = res.start_error
        viol.append({'kind': 'start-failed',
                     'detail': '%s: %s' % (type(e).__name__, str(e)[:300])})
        return _done(case, res, viol, stats, tg, allowed)
    root = enginerun.root_of(res)
    if not res.quiescent:
        viol.append({'kind': 'did-not-quiesce',
                     'detail': enginerun.trace_labels(res)[-30:]})
    elif res.integrity_rescue:
        viol.append({'kind': 'lost-wakeup-rescued-by-integrity-check',
                     'detail': enginerun.trace_labels(res)[-30:]})
    elif root['state'] not in ('SUCCESS', 'ERROR', 'CANCELLED'):
        viol.append({'kind': 'not-final-at-quiescence',
                     'detail': {'wf_state': root['state'],
                                'tasks': [(t['name'], t['state'])
                                          for t in enginerun.tasks_of(res)]}})
    for e in common.undeclared_errors(res, server=True):
        viol.append({'kind': 'undeclared-error',
                     'detail': {k: e.get(k) for k in
                                ('type', 'msg', 'frame', 'where', 'label')}})
    if case.get('auto_resume') and not weak:
        # resume variant of the known finding join-retrigger (see C04):
        # classified through the compare-and-swap log; the verdict oracle
        # does not apply, termination and error discipline still do
        from mv.props.c10 import _retriggered
        if res.snap and _retriggered(res.snap):
            if stats:
                stats.counters['known_shape_join_retrigger_seen'] += 1
            weak = True
    if not viol and not weak:
        outk = sorted(prog['output']) if prog.get('output') else []
        v = enginerun.verdict(res, outk)
        if v not in allowed:
            viol.append({'kind': 'verdict-not-allowed',
                         'detail': {'engine': v,
                                    'allowed': sorted(allowed)[:4]}})
    if stats is not None:
        stats.counters['singleton_oracle' if len(allowed) == 1
                       else 'set_oracle'] += 1
    return _done(case, res, viol, stats, tg, allowed)


def _done(case, res, viol, stats, tg, allowed):
    from mv.props import common as c
    from mv.gen import workflows as G
    if stats is not None:
        structural = any(t in tg for t in (
            'has_fork', 'has_join', 'has_error_route', 'has_guard',
            'has_command', 'has_requires', 'has_defaults'))
        nontriv = structural and res.nonfifo >= 1
        f = runner.fp([case['prog'], case['outcomes'], case.get('input'),
                       res.sched_taken])
        wfrow = res.snap['wf'].get(res.wf_ex_id) or {}
        stats.case(f, nontriv, tg, c.sample_of(
            case, res, {'wf_state': wfrow.get('state')}))
        stats.counters['steps'] += res.steps
    if viol:
        for v in viol:
            v['yaml'] = G.render(case['prog']).splitlines()
            v['sched_taken'] = res.sched_taken
    return viol


def shard_main(shard, nshards, seed, tier, opts):
    from mv import sim
    st = runner.Stats()
    sched_type = common.shard_scheduler(shard)
    sim.boot(sched_type)
    st.tags['scheduler_' + sched_type] += 0
    n = opts.get('examples', 60)
    max_tasks = opts.get('max_tasks', 8)
    feats = None
    if shard % 8 in (5, 6):
        # an eighth of the shards per scheduler implementation: definitions
        # that pause themselves (`pause` command); the harness resumes
        # whenever nothing else is pending; the reference model drops the
        # pause entries (a pause only delays dispatch, the model explores
        # all orders)
        from mv.gen import workflows as G
        feats = G.feats(pause_cmd=True)
    strat = common.engine_case_strategy(max_tasks=max_tasks, feats=feats,
                                        max_devs=opts.get('max_devs', 6))
    if feats is not None:
        strat = strat.map(lambda c: dict(c, auto_resume=True))

    def run(case):
        case = dict(case)
        case['scheduler'] = sched_type
        return check_case(case, st)

    fail = runner.drive(strat, run, n, seed * 1000 + shard,
                        time_budget=opts.get('time_budget'),
                        shrink_budget=opts.get('shrink_budget', 60), stats=st)
    failures = []
    if fail:
        fail['scheduler'] = sched_type
        failures.append(fail)
    if not failures:
        failures.extend(bundled_phase(shard, nshards, seed, tier, st,
                                      sched_type))
    return {'stats': st.to_dict(), 'failures': failures}


def bundled_phase(shard, nshards, seed, tier, st, sched_type):
    """Termination and error discipline (layers 1 and 2 of the oracle) over
    the definitions bundled in the repository: hand-written workflows that
    use features outside the generator's grammar (dynamic action / workflow
    names, ad-hoc actions, nested with-items, policies by expression...).
    No reference verdict exists for them, so layer 3 is not asserted."""
    from mv.props import bundledrun as R
    keep, hist = R.corpus('c01')
    if shard == 0:
        st.counters.update(hist)
        st.counters['bundled_corpus'] += len(keep)
    variants = [R.VARIANTS[0],
                ('shuffle-s', {'policy': 'shuffle', 'seed': seed * 13 + 5},
                 False, 4)]
    if tier == 'thorough':
        variants = list(R.VARIANTS) + [
            ('shuffle-t%d' % i, {'policy': 'shuffle', 'seed': seed * 100 + i},
             i % 2 == 1, 20 + i) for i in range(6)]
    for i, e in enumerate(keep):
        if i % nshards != shard:
            continue
        fails = R.check_entry(e, st, variants=variants, compare=False)
        if fails:
            for f in fails:
                f['scheduler'] = sched_type
            return fails[:1]
    return []


def replay(path):
    from mv import sim
    f = common.replay_case(path)
    sim.boot(f.get('scheduler', 'default'))
    case = f['case']
    if 'bundled' in case:
        from mv.props import bundledrun as R
        return R.replay_case(case)
    case['sched'] = {'recorded': f['violations'][0].get('sched_taken')} \
        if f['violations'][0].get('sched_taken') else case['sched']
    st = runner.Stats()
    viol = check_case(case, st)
    return viol


def main(tier, seed):
    t0 = time.time()
    opts = {'examples': common.budget(tier, 120, 1500),
            'max_tasks': common.budget(tier, 8, 12),
            'max_devs': common.budget(tier, 6, 12),
            'time_budget': common.budget(tier, 70, 1500),
            'shrink_budget': common.budget(tier, 40, 200)}
    results = runner.run_shards('mv.props.c01', 'shard_main', 16, seed, tier,
                                opts)
    stats = runner.Stats.merge([r['stats'] for r in results])
    failures = [f for r in results for f in r['failures']]
    herrs = [h for r in results for h in r['harness_errors']]
    failures.sort(key=lambda f: len(str(f)))
    return runner.finish(
        PROP, tier, seed, 'exploration', t0, stats, failures[:1], herrs,
        RULE,
        assumptions=[
            'single engine process: transactions are totally ordered '
            '(tx_lock); interleaving granularity = transaction / post-commit '
            'operation / scheduler job / RPC message',
            'SQLite in memory instead of MySQL/PostgreSQL',
            'reference semantics mv/ref/wfsem.py written from '
            'wf_lang_v2.rst; cases whose outcome set exceeds the state cap '
            'or that contain the known join-retrigger shape are excluded '
            'and counted'])
