"""Dedicated re-creations of known findings (DESIGN.md section 6).

Each function re-creates one recorded shape against the current tree and
returns a description when it still fails (the caller prints KNOWN-FINDING),
or None when it no longer reproduces.
"""

RETRIGGER_WF = """
version: '2.0'
wf:
  tasks:
    a:
      action: std.noop
      on-success: j
    b:
      action: std.noop
      on-success: j
    j:
      join: one
      action: std.noop
      on-success: k
    k:
      action: std.noop
"""


def join_retrigger():
    """join: one fed by two succeeding branches; the second branch routes to
    the join after it started (or finished)."""
    from mv import enginerun
    prog = {'name': 'wf', 'type': 'direct', 'order': ['a', 'b', 'j', 'k']}
    worst = None
    for pol in ({'policy': 'lifo'},
                {'policy': 'prio',
                 'prio': ['job', 'ptx', 'msg', 'clock', 'act']}):
        case = {'prog': prog, 'yaml': RETRIGGER_WF, 'outcomes': {},
                'sched': pol}
        res = enginerun.run_case(case)
        s = res.snap
        jids = [t['id'] for t in s['task'].values() if t['name'] == 'j']
        n_act = sum(1 for a in s['action'].values()
                    if a['task_execution_id'] in jids)
        back = [(c['from'], c['to']) for c in res.cas
                if c['fn'] == 'update_task_execution_state' and c['matched']
                and c['id'] in jids and c['to'] == 'WAITING']
        n_k = sum(1 for t in s['task'].values() if t['name'] == 'k')
        if n_act > 1 or back:
            d = ('join-retrigger: a `join: one` task fed by two succeeding '
                 'branches is put back to WAITING by Task.defer when the '
                 'second branch routes to it after it started and runs again '
                 '(schedule %s: join actions=%d, transitions back to WAITING='
                 '%s, successor instances=%d)' % (pol['policy'], n_act, back,
                                                  n_k))
            if worst is None or n_k > 1:
                worst = d
    return worst


def withitems_subwf_pause():
    """with-items over sub-workflows; an operator pauses one child (which
    pauses parent and siblings), resumes another child only, later the
    root: the run does not end like the unpaused run."""
    import json
    import os
    from mv import runner
    from mv.props import c10
    path = os.path.join(runner.VERIF, 'known',
                        'C10-withitems-subwf-pause.json')
    with open(path) as f:
        d = json.load(f)
    viol = c10.check_case(d['case'])
    if viol:
        return ('withitems-subwf-pause: with-items task over sub-workflows, '
                'operator pauses/resumes individual child executions while '
                'siblings are paused through the parent: %s (%s)' % (
                    viol[0]['kind'],
                    str(viol[0]['detail'])[:200]))
    return None


def withitems_rerun_concurrency():
    """with-items task with concurrency below the item count, repeated
    rerun with reset: an item index ends with two accepted executions."""
    import json
    import os
    from mv import runner
    from mv.props import c12
    path = os.path.join(runner.VERIF, 'known',
                        'C12-withitems-rerun-concurrency.json')
    with open(path) as f:
        d = json.load(f)
    case = dict(d['case'])
    case['allow_known'] = True
    viol = c12.check_case(case)
    if viol:
        return ('withitems-rerun-concurrency: with-items task (4 items, '
                'concurrency 3, item 0 fails), rerun with reset twice: %s '
                '(%s)' % (viol[0]['kind'], str(viol[0]['detail'])[:160]))
    return None


def jinja_context_mutation():
    import copy
    from mistral import expressions as expr
    ctx = {'d': {'a': 1}, 'lst': [1, 2]}
    before = copy.deepcopy(ctx)
    hit = []
    for e in ('{{ _.d.clear() }}', '{{ _.lst.append(9) }}'):
        c = copy.deepcopy(before)
        try:
            expr.evaluate_recursively(e, c)
        except Exception:
            continue
        if c != before:
            hit.append(e)
    if hit:
        return ('jinja-context-mutation: evaluating %s modifies the context '
                'object passed to expressions.evaluate_recursively (Jinja '
                'runs in a non-immutable sandbox on the live context)' %
                ' / '.join(hit))
    return None


def scheduler_ghost():
    from mv.props import c13
    case = {'impl': 'default', 'n_inst': 1, 'n_jobs': 1, 'pickup': 1,
            'timeout': 1, 'batch': None,
            'plan': [['schedule', 0, 0, 0, 'k1', False],
                     ['query', 0, 'k1']]}
    viol = c13.check_case(case)
    for v in viol:
        if v['kind'] == 'pending-jobs-query-wrong':
            return ('scheduler-ghost-pending-job: after a rolled-back '
                    'schedule(key=k1) has_scheduled_jobs(key=k1, '
                    'processing=False) still answers True on that instance')
    return None


SUBCHECKS = {'join-retrigger': join_retrigger,
             'scheduler-ghost-pending-job': scheduler_ghost,
             'jinja-context-mutation': jinja_context_mutation,
             'withitems-rerun-concurrency': withitems_rerun_concurrency,
             'withitems-subwf-pause': withitems_subwf_pause}


def run_known(prop):
    """Returns KNOWN-FINDING descriptions for findings listed for prop."""
    from mv import runner
    out = []
    for k in runner.known_for(prop):
        fn = SUBCHECKS.get(k['id'])
        if fn is None:
            continue
        d = fn()
        if d:
            out.append('%s' % d)
    return out
