"""Running repository-bundled definitions (mv/gen/bundled.py) on simworld.

Used by C02 (metamorphic comparison across schedules / evictions / id salts)
and by C01 (termination and error discipline only: no reference verdict is
available for hand-written definitions).
"""
import json
import re

from mv import runner

_UUID = re.compile(r'[0-9a-f]{8}-[0-9a-f]{4}-[0-9a-f]{4}-[0-9a-f]{4}-'
                   r'[0-9a-f]{12}')


def emulate(tname, idx, attempt, info):
    """Deterministic stand-in for the bundled definitions' std actions."""
    cls = info.get('cls')
    inp = info.get('input') or {}
    if cls == 'EchoAction':
        return ('ok', inp.get('output'))
    if cls == 'FailAction':
        return ('err', inp.get('error_data') or 'Fail action expected exception.')
    if cls == 'NoOpAction':
        return ('ok', None)
    if cls == 'TestDictAction':
        return ('real', None)
    return ('ok', 'v')


def _erase_ids(obj):
    return _UUID.sub('ID', json.dumps(obj, sort_keys=True, default=str))


def register(entry):
    """Create the entry's definitions through the real services.
    Returns None when accepted, or the (declared) rejection."""
    from mv import sim
    from mistral.services import workbooks as wb_service
    try:
        if entry['kind'] == 'wb':
            wb_service.create_workbook_v2(entry['text'])
        else:
            sim.create_workflows(entry['text'])
    except Exception as e:  # classified by the caller
        return e
    return None


VARIANTS = (
    ('fifo', {'policy': 'fifo'}, False, 0),
    ('lifo', {'policy': 'lifo'}, False, 0),
    ('prio-job-last', {'policy': 'prio',
                       'prio': ['act', 'msg', 'ptx', 'clock', 'job']},
     False, 7),
    ('prio-act-last-evict', {'policy': 'prio',
                             'prio': ['job', 'ptx', 'msg', 'clock', 'act']},
     True, 3),
    ('shuffle-a', {'policy': 'shuffle', 'seed': 17}, False, 11),
    ('shuffle-b-evict', {'policy': 'shuffle', 'seed': 4711}, True, 12),
    ('fifo-evict', {'policy': 'fifo'}, True, 0),
)


def run_variant(entry, wf_name, wf_input, sched, evict, salt, budget=1500):
    """One run of one workflow of the entry.  Returns (rows, res, err)."""
    from mv import sim, enginerun
    res = enginerun.RunResult()
    sim.reset(salt=salt)
    sim.W.outcome = emulate
    rej = register(entry)
    if rej is not None:
        return None, None, rej
    kind, val = sim.start_workflow(wf_name, dict(wf_input or {}))
    if kind != 'ok':
        res.start_error = val
        return None, res, None
    res.wf_ex_id = val.id
    s = enginerun.Schedule(sched)

    def hook(rec):
        if evict:
            sim.clear_spec_caches()
    q, n = enginerun.run_until_quiet(s, budget, hook=hook)
    res.quiescent = q
    res.steps = n
    res.snap = sim.snapshot()
    res.trace = sim.W.trace
    res.errors = sim.W.errors
    res.swallowed = sim.W.swallowed
    res.server_errors = sim.W.server_errors
    res.sched_taken = s.taken
    res.sched_widths = s.widths
    res.nonfifo = s.nonfifo
    res.multi = s.multi
    rows = enginerun.canon_rows(res)
    return rows, res, None


def rows_key(rows, forced):
    if forced:
        # the run was failed by force (failing expression / structural
        # error) while other work was in flight: what had been published or
        # started by then is order dependent in the language itself; only
        # the workflow states are compared
        return _erase_ids(sorted((w[0], w[1], w[3]) for w in rows['wf']))
    return _erase_ids(rows)


def cases_of(entry, max_wfs=4):
    """[(workflow name, input)] to run for an entry."""
    from mv.gen import bundled as B
    out = []
    for name, wf in B.workflows_of(entry)[:max_wfs]:
        req = B.required_inputs(wf)
        if not req:
            out.append((name, {}))
        else:
            for g in B.GUESSES:
                out.append((name, {k: g for k in req}))
    return out


def fingerprint(entry, name, inp, variant):
    return runner.fp([entry['h'], name, inp, variant])


FINAL = ('SUCCESS', 'ERROR', 'CANCELLED')


def check_entry(entry, stats, variants=VARIANTS, compare=True,
                discipline=True, max_wfs=4):
    """Run every (workflow, input) case of one corpus entry under the given
    variants.  Returns a list of failures {'case':…, 'violations':[…]}."""
    from mv.props import common
    fails = []
    for name, inp in cases_of(entry, max_wfs):
        base = None
        base_rows = None
        base_variant = None
        keys = []
        forced = False
        runs = []
        for vname, sched, evict, salt in variants:
            rows, res, rej = run_variant(entry, name, inp, sched, evict, salt)
            if rej is not None:
                if not common.declared({'mro': [c.__name__ for c in
                                                type(rej).__mro__]}):
                    # C14's business (validation totality); counted here
                    stats.counters['bundled_rejected_undeclared'] += 1
                stats.counters['bundled_rejected'] += 1
                break
            if rows is None:
                stats.counters['bundled_start_refused'] += 1
                break
            case = {'bundled': {'src': entry['src'], 'h': entry['h'],
                                'kind': entry['kind'],
                                'text': entry['text']},
                    'wf': name, 'input': inp, 'variant': vname,
                    'sched': {'recorded': list(res.sched_taken)},
                    'evict': evict, 'salt': salt}
            viol = []
            w = res.snap['wf'].get(res.wf_ex_id) or {}
            if discipline:
                if not res.quiescent:
                    viol.append({'kind': 'bundled-did-not-quiesce',
                                 'detail': {'steps': res.steps}})
                else:
                    bad_wf = [(x['name'], x['state'])
                              for x in res.snap['wf'].values()
                              if x['state'] not in FINAL]
                    # tasks are judged through their workflow: a join left
                    # WAITING in an execution that was failed by force is
                    # final by the language (the statement speaks of tasks
                    # of a RUNNING execution)
                    wf_state = {x['id']: x['state']
                                for x in res.snap['wf'].values()}
                    bad_t = [(x['name'], x['state'])
                             for x in res.snap['task'].values()
                             if x['state'] not in FINAL + ('SKIPPED',)
                             and wf_state.get(x['wf_ex_id']) not in FINAL]
                    if bad_wf or bad_t:
                        viol.append({'kind': 'bundled-quiescent-not-final',
                                     'detail': {'wf': bad_wf[:5],
                                                'tasks': bad_t[:5]}})
                und = common.undeclared_errors(res, server=True)
                if und:
                    viol.append({'kind': 'bundled-undeclared-error',
                                 'detail': und[:2]})
            forced = forced or bool(_forced(res))
            runs.append((vname, rows, res, case))
            if viol:
                fails.append({'case': case, 'violations': viol})
                break
            nontriv = res.multi > 0 and (res.nonfifo > 0 or evict)
            stats.case(fingerprint(entry, name, inp, vname), nontriv,
                       ['bundled', 'bundled_' + entry['kind'],
                        'bundled_state_' + str(w.get('state'))],
                       sample={'bundled_src': entry['src'], 'wf': name,
                               'input': inp, 'variant': vname,
                               'state': w.get('state'),
                               'steps': res.steps}
                       if stats.counters['bundled_samples'] < 2 else None)
            if nontriv:
                stats.counters['bundled_samples'] += 1
        if compare and len(runs) > 1 and not fails:
            if forced:
                stats.counters['bundled_forced_failure_loose_compare'] += 1
            k0 = rows_key(runs[0][1], forced)
            for vname, rows, res, case in runs[1:]:
                if rows_key(rows, forced) != k0:
                    a = set(map(str, runs[0][1]['task'])) | \
                        set(map(str, runs[0][1]['wf']))
                    b = set(map(str, rows['task'])) | set(map(str, rows['wf']))
                    diff = ['- ' + _UUID.sub('ID', x)[:300]
                            for x in sorted(a - b)[:4]] + \
                           ['+ ' + _UUID.sub('ID', x)[:300]
                            for x in sorted(b - a)[:4]]
                    fails.append({'case': case, 'violations': [{
                        'kind': 'bundled-order-dependent',
                        'detail': {'baseline': runs[0][0], 'variant': vname,
                                   'diff': diff}}]})
                    break
        if fails:
            break
    stats.counters['bundled_entries'] += 1
    return fails


def _forced(res):
    from mv import sim
    return sim.W.forced_fail


def replay_case(case):
    """Re-run one saved bundled case (baseline + the failing variant)."""
    st = runner.Stats()
    e = dict(case['bundled'])
    vs = [VARIANTS[0],
          (case['variant'], case['sched'], case.get('evict', False),
           case.get('salt', 0))]
    fails = []
    old_cases = globals()['cases_of']

    def only(entry, max_wfs=4):
        return [(case['wf'], case['input'])]
    globals()['cases_of'] = only
    try:
        fails = check_entry(e, st, variants=vs)
    finally:
        globals()['cases_of'] = old_cases
    out = []
    for f in fails:
        out.extend(f['violations'])
    return out


def corpus(purpose):
    """Screened corpus and the exclusion histogram for 'c01' / 'c02'."""
    import collections
    from mv.gen import bundled as B
    hist = collections.Counter()
    keep = []
    for e in B.collect():
        try:
            r = B.screen(e)
        except Exception as ex:  # odd document shapes: not in the domain
            r = 'screen-' + type(ex).__name__
        if purpose == 'c01' and r not in (None,) and \
                not str(r).startswith(('pause', 'screen-', 'odd', 'no-tasks')):
            r = None   # order dependence is irrelevant for termination
        if purpose == 'c01' and r is None and B.uses_pause(e):
            r = 'pause-command'
        if r is None:
            keep.append(e)
        else:
            hist['bundled_excluded_' + r] += 1
    return keep, hist
