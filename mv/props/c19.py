"""C19 Outbound HTTP from workflows cannot reach denied networks.

URLs are built by construction from a catalogue (scheme x userinfo x host
encoding of a known address or a name in a stub resolver zone x port x tail)
under several denied_cidrs / allowed_hosts configurations, so the generator
knows which address every host denotes.  Oracle 1: validate_url refuses iff
the reference policy (mv/ref: written from the property text) refuses.
Oracle 2 (differential, end to end): HTTPAction.run / WebhookPublisher.publish
with the HTTP client stubbed call the client iff not refused, and the host the
client would connect to (requests' own URL preparation + urllib3 parser) does
not denote a denied address.
"""
import ipaddress
import itertools
import json
import socket
import time

from mv import runner
from mv.props import common

PROP = 'C19'
RULE = ('URL = scheme x userinfo x host form x port x tail, host form = '
        'textual encoding (dotted/decimal/octal/hex/short/mixed/IPv6 '
        'compressed+expanded/IPv4-mapped/upper case/unicode digits) of an '
        'address inside or outside the denied networks, or a name of a stub '
        'resolver zone (single, multi-record, case, trailing dot); x config '
        '(default, +RFC1918, empty, invalid entry, allow-list). Non-trivial = '
        'denied address in a non-canonical encoding, or a multi-record / '
        'case-variant name, or a URL with userinfo/backslash/fragment tricks; '
        'distinct by (url, config)')

ZONE = {
    'safe.example': ['93.184.216.34'],
    'safe6.example': ['2606:2800:220:1:248:1893:25c8:1946'],
    'evil.example': ['127.0.0.1'],
    'meta.example': ['169.254.169.254'],
    'multi.example': ['93.184.216.34', '169.254.169.254'],
    'multi6.example': ['2606:2800:220:1:248:1893:25c8:1946', '::1'],
    'lastbad.example': ['93.184.216.34', '8.8.8.8', '127.0.0.53'],
    'v6evil.example': ['::1'],
    'll6.example': ['fe80::1'],
    'mapped.example': ['::ffff:127.0.0.1'],
    'mappedmeta.example': ['::ffff:a9fe:a9fe'],
    'ten.example': ['10.1.2.3'],
    'localhost': ['127.0.0.1', '::1'],
    'allowed.example': ['93.184.216.34'],
    'allowedbad.example': ['127.0.0.1'],
}

CONFIGS = {
    'default': {},
    'rfc1918': {'denied_cidrs': ['127.0.0.0/8', '::1/128', '169.254.0.0/16',
                                 'fe80::/10', '10.0.0.0/8', '172.16.0.0/12',
                                 '192.168.0.0/16']},
    'empty': {'denied_cidrs': []},
    'invalid_entry': {'denied_cidrs': ['not-a-cidr', '127.0.0.0/8',
                                       '169.254.1.1/16']},
    'only_ten': {'denied_cidrs': ['10.0.0.0/8']},
    'allow_list': {'allowed_hosts': ['allowed.example', 'allowedbad.example',
                                     '93.184.216.34', '127.0.0.1']},
}

ADDRS4 = ['127.0.0.1', '127.1.2.3', '127.255.255.254', '169.254.169.254',
          '169.254.0.1', '10.1.2.3', '172.16.5.5', '192.168.1.1',
          '93.184.216.34', '8.8.8.8', '126.255.255.255', '128.0.0.1',
          '169.253.255.255', '169.255.0.0', '0.0.0.0', '1.1.1.1']
ADDRS6 = ['::1', 'fe80::1', 'fe80::dead:beef', 'febf:ffff::1', 'fec0::1',
          '2606:2800:220:1:248:1893:25c8:1946', '::2', 'fe7f::1']


def forms4(a):
    """Textual host forms that may denote IPv4 address a."""
    o = [int(x) for x in a.split('.')]
    n = int(ipaddress.IPv4Address(a))
    f = {
        'dotted': a,
        'decimal': str(n),
        'hex': hex(n),
        'HEX': '0X%X' % n,
        'octal_int': '0%o' % n,
        'octal_dotted': '.'.join('0%o' % x for x in o),
        'octal_padded': '.'.join('%04o' % x for x in o),
        'hex_dotted': '.'.join(hex(x) for x in o),
        'short2': '%d.%d' % (o[0], (o[1] << 16) | (o[2] << 8) | o[3]),
        'short3': '%d.%d.%d' % (o[0], o[1], (o[2] << 8) | o[3]),
        'mixed': '%s.%d.0%o.%d' % (hex(o[0]), o[1], o[2], o[3]),
        'mapped': '[::ffff:%s]' % a,
        'mapped_hex': '[::ffff:%x:%x]' % ((o[0] << 8) | o[1],
                                           (o[2] << 8) | o[3]),
        'mapped_expanded': '[0:0:0:0:0:ffff:%x:%x]' % (
            (o[0] << 8) | o[1], (o[2] << 8) | o[3]),
        'mapped_upper': '[::FFFF:%s]' % a,
        'mapped_zero_padded': '[0000:0000:0000:0000:0000:ffff:%04x:%04x]' % (
            (o[0] << 8) | o[1], (o[2] << 8) | o[3]),
        'trailing_dot': a + '.',
        'fullwidth': a.replace('1', '\uff11').replace('2', '\uff12'),
        'ideographic_dot': a.replace('.', '\u3002'),
    }
    return f


def forms6(a):
    ip = ipaddress.IPv6Address(a)
    f = {
        'compressed': '[%s]' % ip.compressed,
        'exploded': '[%s]' % ip.exploded,
        'upper': '[%s]' % ip.compressed.upper(),
        'exploded_upper': '[%s]' % ip.exploded.upper(),
    }
    if ip.is_link_local:
        f['scoped'] = '[%s%%25lo]' % ip.compressed
        f['scoped_raw'] = '[%s%%lo]' % ip.compressed
    return f


def name_forms(n):
    return {'name': n, 'name_upper': n.upper(), 'name_mixed': n.title(),
            'name_dot': n + '.'}


_REAL_GAI = socket.getaddrinfo


def numeric_addr(host):
    """What libc makes of a numeric host literal (None if not numeric)."""
    try:
        infos = _REAL_GAI(host, None, flags=socket.AI_NUMERICHOST)
    except (socket.gaierror, UnicodeError, ValueError):
        return None
    return sorted({i[4][0] for i in infos})


def stub_getaddrinfo(host, port, *a, **kw):
    """Numeric literals go to libc *with the caller's family / type
    arguments* (an IPv6 literal asked for as AF_INET fails there exactly as
    it does in production); names go to the zone, filtered by the requested
    family; else NXDOMAIN."""
    if host is None:
        raise socket.gaierror(-2, 'no host')
    family = a[0] if len(a) > 0 else kw.get('family', 0)
    stype = a[1] if len(a) > 1 else kw.get('type', 0)
    nums = numeric_addr(host)
    if nums is not None:
        infos = _REAL_GAI(host, port, family or 0, stype or 0, 0,
                          socket.AI_NUMERICHOST)
        out = []
        seen = set()
        for i in infos:
            if i[4][0] in seen:
                continue
            seen.add(i[4][0])
            out.append((i[0], socket.SOCK_STREAM, 6, '', (i[4][0], port or 0)))
        return out
    try:
        key = host.encode('idna').decode().lower().rstrip('.')
    except UnicodeError:
        raise
    if key in ZONE:
        recs = [x for x in ZONE[key]
                if not family
                or (family == socket.AF_INET6) == (':' in x)]
        if not recs:
            raise socket.gaierror(-5, 'No address associated with hostname')
        return [(socket.AF_INET6 if ':' in x else socket.AF_INET,
                 socket.SOCK_STREAM, 6, '', (x, port or 0)) for x in recs]
    raise socket.gaierror(-2, 'Name or service not known')


# --------------------------------------------------------------------------
# reference policy (from the property statement)

def ref_networks(conf):
    cidrs = conf.get('denied_cidrs', ['127.0.0.0/8', '::1/128',
                                      '169.254.0.0/16', 'fe80::/10'])
    nets = []
    for c in cidrs:
        try:
            nets.append(ipaddress.ip_network(c, strict=False))
        except ValueError:
            pass
    return nets


def addr_denied(addr_text, nets):
    a = ipaddress.ip_address(addr_text.split('%')[0])
    cands = [a]
    if a.version == 6 and a.ipv4_mapped is not None:
        cands.append(a.ipv4_mapped)
    for c in cands:
        for n in nets:
            if c.version == n.version and c in n:
                return True
    return False


def ref_resolve(host_text):
    """Addresses a URL host (as written between // and :port) denotes."""
    h = host_text
    if h.startswith('[') and h.endswith(']'):
        h = h[1:-1]
    h = h.replace('%25', '%')
    nums = numeric_addr(h)
    if nums is not None:
        return nums
    try:
        key = h.encode('idna').decode().lower().rstrip('.')
    except UnicodeError:
        return None
    return ZONE.get(key)


def ref_refused(parts, conf):
    """Must this URL be refused?  parts: dict scheme/host/..."""
    if parts['scheme'].lower() not in ('http', 'https'):
        return True, 'scheme'
    host = parts['host']
    bare = host[1:-1] if host.startswith('[') else host
    allowed = conf.get('allowed_hosts')
    if allowed and bare.lower().replace('%25', '%') not in allowed:
        return True, 'allow-list'
    addrs = ref_resolve(host)
    if addrs is None:
        return False, 'unresolvable'
    nets = ref_networks(conf)
    for a in addrs:
        if addr_denied(a, nets):
            return True, 'denied-address'
    return False, 'ok'


# --------------------------------------------------------------------------
# catalogue

SCHEMES = ['http', 'https', 'HTTP', 'hTTps', 'ftp', 'file', 'gopher',
           'http+unix', 'ws', 'javascript']
USERINFO = ['', 'user@', 'user:pw@', 'safe.example@', '127.0.0.1@',
            'a%40b@', 'safe.example:80@']
PORTS = ['', ':80', ':8080', ':65535']
TAILS = ['', '/', '/path?q=1#frag', '/latest/meta-data/', '?x=@y', '#@z']


def hosts():
    out = []
    for a in ADDRS4:
        for k, v in sorted(forms4(a).items()):
            out.append(('v4:%s:%s' % (a, k), v))
    for a in ADDRS6:
        for k, v in sorted(forms6(a).items()):
            out.append(('v6:%s:%s' % (a, k), v))
    for n in sorted(ZONE):
        for k, v in sorted(name_forms(n).items()):
            out.append(('name:%s:%s' % (n, k), v))
    out.append(('name:unknown', 'nxdomain.example'))
    return out


def build(scheme, userinfo, host, port, tail):
    return '%s://%s%s%s%s' % (scheme, userinfo, host, port, tail)


def nontrivial(hkey, userinfo, conf_name, refused):
    if hkey.startswith('v4:') and not hkey.endswith(':dotted'):
        return True
    if hkey.startswith('v6:') and not hkey.endswith(':compressed'):
        return True
    if hkey.startswith('name:multi') or hkey.startswith('name:lastbad'):
        return True
    if hkey.startswith('name:') and not hkey.endswith(':name'):
        return True
    return bool(userinfo) or conf_name != 'default'


# --------------------------------------------------------------------------

_BOOT = {}


def boot():
    if _BOOT:
        return _BOOT
    import logging as pylog
    pylog.disable(pylog.CRITICAL)
    import sys
    from mv import sim  # noqa: sets sys.path for VERIF_REPO
    from oslo_config import cfg
    from oslo_log import log as logging
    CONF = cfg.CONF
    try:
        logging.register_options(CONF)
    except Exception:
        pass
    from mistral import config  # noqa
    try:
        CONF(args=[], project='mistral', default_config_files=[])
    except Exception:
        pass
    from mistral.db.v2 import api as _db_api  # noqa (import order)
    from mistral.utils import egress
    from mistral import exceptions as exc
    from mistral.actions import std_actions
    from mistral.notifiers.publishers import webhook

    class FakeSocket(object):
        getaddrinfo = staticmethod(stub_getaddrinfo)

        def __getattr__(self, n):
            return getattr(socket, n)

    if not hasattr(egress, 'socket') or not hasattr(egress, 'validate_url'):
        raise sim.HarnessError('egress patch targets missing')
    egress.socket = FakeSocket()
    _BOOT.update(CONF=CONF, egress=egress, exc=exc, std_actions=std_actions,
                 webhook=webhook)
    return _BOOT


def set_conf(conf):
    B = boot()
    CONF = B['CONF']
    CONF.clear_override('denied_cidrs', 'action_std_http')
    CONF.clear_override('allowed_hosts', 'action_std_http')
    for k, v in conf.items():
        CONF.set_override(k, v, 'action_std_http')


def client_target(url):
    """Host the HTTP client would connect to (requests + urllib3)."""
    import requests
    from urllib3.util import parse_url
    p = requests.models.PreparedRequest()
    try:
        p.prepare_url(url, None)
    except Exception:
        return None
    try:
        u = parse_url(p.url)
    except Exception:
        return None
    return u.host


def check_url(url, parts, conf_name, e2e=False):
    """Returns (violations, refused_actual)."""
    B = boot()
    conf = CONFIGS[conf_name]
    viol = []
    must_refuse, why = ref_refused(parts, conf)
    try:
        B['egress'].validate_url(url)
        refused = False
        exc_type = None
    except B['exc'].UrlNotAllowedException:
        refused = True
        exc_type = 'UrlNotAllowedException'
    except Exception as e:  # a refusal by other means (e.g. bad port)
        refused = True
        exc_type = type(e).__name__
    if must_refuse and not refused:
        viol.append({'kind': 'accepted-but-must-refuse', 'detail': {
            'url': url, 'config': conf_name, 'why': why}})
    if not must_refuse and refused and exc_type == 'UrlNotAllowedException':
        viol.append({'kind': 'refused-but-allowed', 'detail': {
            'url': url, 'config': conf_name, 'why': why}})
    if not refused:
        # differential: what would the client connect to?
        tgt = client_target(url)
        if tgt is not None:
            addrs = ref_resolve(tgt)
            nets = ref_networks(conf)
            if addrs and any(addr_denied(a, nets) for a in addrs):
                viol.append({'kind': 'client-would-connect-to-denied',
                             'detail': {'url': url, 'config': conf_name,
                                        'client_host': tgt, 'addrs': addrs}})
    if e2e:
        viol.extend(check_e2e(url, refused, conf_name))
    return viol, refused, exc_type


class _Resp(object):
    status_code = 200
    text = 'ok'
    content = b'ok'
    headers = {}
    encoding = 'utf-8'
    cookies = {}
    elapsed = None
    url = ''
    history = []
    reason = 'OK'

    def json(self):
        return {}

    def close(self):
        pass


def check_e2e(url, refused, conf_name):
    """HTTPAction.run and WebhookPublisher.publish call the client iff the
    URL is not refused."""
    B = boot()
    viol = []
    calls = []

    class FakeRequests(object):
        @staticmethod
        def request(method, u, **kw):
            calls.append(('request', u))
            return _Resp()

        @staticmethod
        def post(u, **kw):
            calls.append(('post', u))
            return _Resp()

        def __getattr__(self, n):
            import requests
            return getattr(requests, n)

    sa = B['std_actions']
    wh = B['webhook']
    old_sa, old_wh = sa.requests, wh.requests
    sa.requests = FakeRequests()
    wh.requests = FakeRequests()
    try:
        for cls in (sa.HTTPAction,):
            del calls[:]
            act = cls(url=url)
            try:
                act.run(None)
            except Exception:
                pass
            if refused and calls:
                viol.append({'kind': 'client-invoked-for-refused-url',
                             'detail': {'url': url, 'via': cls.__name__}})
            if not refused and not calls:
                viol.append({'kind': 'client-not-invoked-for-allowed-url',
                             'detail': {'url': url, 'via': cls.__name__}})
        del calls[:]
        try:
            wh.WebhookPublisher().publish(None, 'id', {}, 'ev', None, url=url)
        except Exception:
            pass
        if refused and calls:
            viol.append({'kind': 'client-invoked-for-refused-url',
                         'detail': {'url': url, 'via': 'webhook'}})
        if not refused and not calls:
            viol.append({'kind': 'client-not-invoked-for-allowed-url',
                         'detail': {'url': url, 'via': 'webhook'}})
    finally:
        sa.requests, wh.requests = old_sa, old_wh
    return viol


def run_combo(combo, st, e2e):
    conf_name, scheme, userinfo, (hkey, host), port, tail = combo
    url = build(scheme, userinfo, host, port, tail)
    parts = {'scheme': scheme, 'host': host}
    set_conf(CONFIGS[conf_name])
    viol, refused, et = check_url(url, parts, conf_name, e2e=e2e)
    tg = ['conf_' + conf_name, 'refused' if refused else 'accepted',
          hkey.split(':')[0] + '_' + hkey.rsplit(':', 1)[-1]]
    if et and et != 'UrlNotAllowedException':
        tg.append('refused_by_' + et)
    st.case(runner.fp([url, conf_name]),
            nontrivial(hkey, userinfo, conf_name, refused), tg,
            {'url': url, 'config': conf_name, 'refused': refused})
    return viol


def shard_main(shard, nshards, seed, tier, opts):
    boot()
    st = runner.Stats()
    H = hosts()
    failures = []
    if opts.get('exhaustive'):
        # the complete catalogue product, sharded
        space = itertools.product(sorted(CONFIGS), SCHEMES, USERINFO, H,
                                  PORTS, TAILS)
        for i, combo in enumerate(space):
            if i % nshards != shard:
                continue
            viol = run_combo(combo, st, e2e=(i % 7 == 0))
            if viol and len(failures) < 5:
                failures.append({'case': {'combo': combo}, 'violations': viol})
        return {'stats': st.to_dict(), 'failures': _dedupe(failures)}

    from hypothesis import strategies as s
    strat = s.tuples(s.sampled_from(sorted(CONFIGS)), s.sampled_from(SCHEMES),
                     s.sampled_from(USERINFO), s.sampled_from(H),
                     s.sampled_from(PORTS), s.sampled_from(TAILS))
    collected = []

    def run(combo):
        viol = run_combo(combo, st, e2e=True)
        if viol:
            collected.append({'case': {'combo': combo}, 'violations': viol})
        return []   # collect-then-report: continue past the first failure

    runner.drive(strat, run, opts.get('examples', 600), seed * 1000 + shard,
                 stats=st)
    # free-form mutated hosts for the parser differential
    strat2 = s.tuples(s.sampled_from(['http', 'https']),
                      s.text(alphabet='@\\#?/:[]%.0127safe xampl\t', min_size=1,
                             max_size=24))

    def run2(t):
        scheme, raw = t
        url = '%s://%s' % (scheme, raw)
        set_conf({})
        B = boot()
        try:
            B['egress'].validate_url(url)
        except Exception:
            st.case(runner.fp(['ff', url]), False, ['freeform_refused'])
            return []
        tgt = client_target(url)
        st.case(runner.fp(['ff', url]), True, ['freeform_accepted'],
                {'url': url, 'client_host': tgt})
        if tgt is not None:
            addrs = ref_resolve(tgt)
            if addrs and any(addr_denied(a, ref_networks({}))
                             for a in addrs):
                collected.append({'case': {'url': url}, 'violations': [{
                    'kind': 'client-would-connect-to-denied',
                    'detail': {'url': url, 'client_host': tgt,
                               'addrs': addrs}}]})
        return []

    runner.drive(strat2, run2, opts.get('freeform', 300), seed * 1000 + shard,
                 stats=st)
    return {'stats': st.to_dict(), 'failures': _dedupe(collected)}


def _dedupe(failures):
    """One failure per root cause bucket (kind + host form class)."""
    seen = {}
    for f in failures:
        v = f['violations'][0]
        combo = f['case'].get('combo')
        form = combo[3][0].split(':')[-1] if combo else 'freeform'
        if combo and combo[3][0].startswith('name:'):
            form = combo[3][0]
        k = (v['kind'], form)
        if k not in seen:
            seen[k] = f
    return list(seen.values())


def classify_known(failure, known):
    v = failure['violations'][0]
    d = json.dumps(v.get('detail'), default=str)
    for k in known:
        sig = k.get('signature', {})
        if sig.get('kind') == v['kind'] and all(s in d for s in
                                                 sig.get('contains', [])):
            return k
    return None


def replay(path):
    f = common.replay_case(path)
    boot()
    case = f['case']
    if 'combo' in case:
        c = case['combo']
        st = runner.Stats()
        return run_combo((c[0], c[1], c[2], tuple(c[3]), c[4], c[5]), st, True)
    set_conf({})
    viol, _, _ = check_url(case['url'], {'scheme': case['url'].split(':')[0],
                                         'host': ''}, 'default')
    return [v for v in viol if v['kind'] == 'client-would-connect-to-denied']


def main(tier, seed):
    t0 = time.time()
    if tier == 'thorough':
        opts = {'exhaustive': True}
    else:
        opts = {'examples': 700, 'freeform': 400}
    results = runner.run_shards('mv.props.c19', 'shard_main', 16, seed, tier,
                                opts)
    stats = runner.Stats.merge([r['stats'] for r in results])
    herrs = [h for r in results for h in r['harness_errors']]
    failures = _dedupe([f for r in results for f in r['failures']])
    known = runner.known_for(PROP)
    hits, unknown = [], []
    for f in failures:
        k = classify_known(f, known)
        if k:
            if k['id'] not in [h[0] for h in hits]:
                hits.append((k['id'], k['what']))
        else:
            unknown.append(f)
    unknown.sort(key=lambda f: len(str(f)))
    return runner.finish(
        PROP, tier, seed, 'exploration', t0, stats, unknown[:3], herrs, RULE,
        assumptions=['DNS is a stub zone (numeric literals still go through '
                     'libc getaddrinfo); HTTP client stubbed; the host the '
                     'client connects to is taken from requests/urllib3 URL '
                     'preparation'],
        known_hits=['%s: %s' % h for h in hits],
        exhaustive=(tier == 'thorough'))
