"""C11 Stop and cancel end the whole execution tree; late results change nothing.

Histories with one stop command (SUCCESS / ERROR / CANCELLED, with or without
message) on the root or a nested execution at a drawn point, then all
remaining events in drawn order plus late results.
"""
import time

from mv import runner
from mv.props import common

PROP = 'C11'
FINAL = ('SUCCESS', 'ERROR', 'CANCELLED')
RULE = ('history = generated (nested / with-items / async) program + schedule '
        '+ one stop(state,msg) on a drawn execution at a drawn step (+ late '
        'results); non-trivial = the stop was issued while >=1 engine event '
        'was pending and the target was RUNNING; distinct = (requested state, '
        'root/nested, program hash, choices taken)')


def _tree(snap, wid):
    """Descendant workflow execution ids of wid (through tasks)."""
    out = []
    todo = [wid]
    while todo:
        w = todo.pop()
        tids = {t['id'] for t in snap['task'].values() if t['wf_ex_id'] == w}
        for c in snap['wf'].values():
            if c['task_execution_id'] in tids:
                out.append(c['id'])
                todo.append(c['id'])
    return out


def check_case(case, stats=None):
    from mv import history, sim
    from mv.gen import workflows as G
    c = dict(case)
    c['yaml'] = G.render_all(case['prog'])
    h = history.run_history(c, observe=True)
    res = h.res
    if res.start_error is not None:
        return []
    viol = []
    final = res.snap
    stops = [r for r in h.issued if r.get('cmd') == 'stop'
             and not r.get('skipped')]
    nontriv = False
    snaps_by_step = {}
    for step, label, snap in h.snaps:
        snaps_by_step[step] = snap
    for rec in stops:
        tgt = rec['target']
        wid = tgt[1]
        was = tgt[3]
        req = rec['state']
        msg = rec.get('msg')
        after = snaps_by_step.get(rec['step'])
        if rec['result'] != 'ok' or after is None:
            continue       # refused: nothing promised
        if was in FINAL:
            # stopping a finished execution must not change it
            w0 = after['wf'][wid]
            if w0['state'] != was:
                viol.append({'kind': 'stop-changed-finished-execution',
                             'detail': {'from': was, 'to': w0['state']}})
            continue
        if not (was == 'RUNNING' or (was == 'PAUSED' and req == 'CANCELLED')):
            continue       # PAUSED + SUCCESS/ERROR: no obligation claimed
        if rec.get('pending_events', 0) >= 1:
            nontriv = True
        w1 = after['wf'][wid]
        if w1['state'] != req:
            viol.append({'kind': 'stopped-execution-has-wrong-state',
                         'detail': {'requested': req, 'actual': w1['state']}})
            continue
        if msg is not None:
            if w1['state_info'] != msg:
                viol.append({'kind': 'stop-message-not-recorded',
                             'detail': {'requested': msg,
                                        'state_info': w1['state_info']}})
            if req in ('ERROR', 'CANCELLED') and \
                    (w1['output'] or {}).get('result') != msg:
                viol.append({'kind': 'stop-message-not-in-output',
                             'detail': {'requested': msg,
                                        'output': str(w1['output'])[:200]}})
        # afterwards: state and output constant; no task created there
        desc_at_stop = _tree(after, wid)
        tasks_at_stop = {tid for tid, t in after['task'].items()
                         if t['wf_ex_id'] == wid}
        below = set(desc_at_stop)
        for step, label, snap in h.snaps:
            if step <= rec['step']:
                continue
            w2 = snap['wf'].get(wid)
            if w2 and (w2['state'] != w1['state']
                       or w2['output'] != w1['output']):
                viol.append({'kind': 'stopped-execution-changed-later',
                             'detail': {'step': step, 'event': label,
                                        'state': [w1['state'], w2['state']],
                                        'output': [str(w1['output'])[:120],
                                                   str(w2['output'])[:120]]}})
                break
        for tid, t in final['task'].items():
            if t['wf_ex_id'] == wid and tid not in tasks_at_stop:
                viol.append({'kind': 'task-created-in-stopped-execution',
                             'detail': {'task': t['name'], 'requested': req}})
        if req == 'CANCELLED':
            # every unfinished descendant is cancelled with its parent task
            for d in desc_at_stop:
                dw0 = after['wf'][d]
                dwf = final['wf'].get(d)
                if dwf is None:
                    continue
                # (the recursion cancels them inside the command itself)
                if dw0['state'] not in FINAL:
                    viol.append({'kind': 'descendant-not-cancelled',
                                 'detail': {'wf': dw0['name'],
                                            'state': dw0['state']}})
                pt = final['task'].get(dwf['task_execution_id'])
                if dw0['state'] == 'CANCELLED' and pt is not None \
                        and res.quiescent and pt['state'] != 'CANCELLED' \
                        and not pt.get('spec_with_items'):
                    viol.append({
                        'kind': 'parent-task-of-cancelled-child-not-cancelled',
                        'detail': {'task': pt['name'],
                                   'state': pt['state']}})
            tasks_below_at_stop = {tid for tid, t in after['task'].items()
                                   if t['wf_ex_id'] in below}
            for tid, t in final['task'].items():
                if t['wf_ex_id'] in below and tid not in tasks_below_at_stop:
                    viol.append({'kind': 'task-created-below-cancelled',
                                 'detail': {'task': t['name']}})
    # upward: a cancel reaches the executions above through their tasks
    # ("any cancelled task => workflow CANCELLED"): an execution that
    # finishes while one of its tasks is CANCELLED ends CANCELLED - unless an
    # operator stopped it with another state, or its definition forces a
    # state (`fail` / `succeed` commands)
    if res.quiescent:
        forced_names = set()
        for p_ in [case['prog']] + list(case['prog'].get('subs') or []):
            if any(e.get('to') in ('fail', 'succeed')
                   for t in p_['tasks'].values()
                   for cl in ('on-success', 'on-error', 'on-complete')
                   for e in t.get(cl) or []) or any(
                    e.get('to') in ('fail', 'succeed')
                    for cl in ('on-success', 'on-error', 'on-complete')
                    for e in ((p_.get('defaults') or {}).get(cl) or [])):
                forced_names.add(p_['name'])
        stopped_other = {r['target'][1] for r in stops
                         if r['result'] == 'ok' and r['state'] != 'CANCELLED'}
        prev = None
        judged = set()
        for step, label, snap in h.snaps:
            if prev is not None:
                for wid, w in snap['wf'].items():
                    p = prev['wf'].get(wid)
                    if wid in judged or p is None or p['state'] in FINAL \
                            or w['state'] not in FINAL:
                        continue
                    judged.add(wid)
                    if wid in stopped_other or w['name'] in forced_names:
                        continue
                    canc = [t['name'] for t in snap['task'].values()
                            if t['wf_ex_id'] == wid
                            and t['state'] == 'CANCELLED']
                    if canc and w['state'] != 'CANCELLED':
                        viol.append({
                            'kind': 'execution-with-cancelled-task-not-'
                                    'cancelled',
                            'detail': {'wf': w['name'], 'state': w['state'],
                                       'cancelled_tasks': canc[:4],
                                       'step': step, 'event': label}})
            prev = snap
    # each cancelled/failed child reported to its parent exactly once
    reports = {}
    for kind, method, kw in sim.W.rpc_log:
        if method == 'on_action_complete' and kw.get('wf_action') is True:
            reports[kw.get('action_ex_id')] = \
                reports.get(kw.get('action_ex_id'), 0) + 1
    if res.quiescent:
        for wid, w in final['wf'].items():
            if w['task_execution_id'] and w['state'] in FINAL:
                n = reports.get(wid, 0)
                if n != 1:
                    viol.append({
                        'kind': 'child-completion-reported-%d-times' % n,
                        'detail': {'wf': w['name'], 'state': w['state']}})
    for e in common.undeclared_errors(res):
        if e.get('type') == 'ValueError' and 'already completed' in (
                e.get('msg') or ''):
            continue
        viol.append({'kind': 'undeclared-error-in-engine-event',
                     'detail': {k: e.get(k) for k in
                                ('type', 'msg', 'frame', 'where', 'label')}})
    if stats is not None:
        tg = G.tags(case['prog'], case['outcomes'])
        for rec in stops:
            tg.append('stop_' + rec['state'])
            tg.append('stop_root' if rec.get('root') else 'stop_nested')
            if rec['result'] != 'ok':
                tg.append('stop_refused')
        key = [(r['state'], r.get('root'), r['target'][3]) for r in stops]
        stats.case(runner.fp([key, case['prog'], res.sched_taken]), nontriv,
                   sorted(set(tg)), common.sample_of(c, res, {
                       'issued': [{k: v for k, v in r.items() if k in (
                           'cmd', 'target', 'state', 'msg', 'step', 'result',
                           'exc', 'skipped')} for r in h.issued]}))
    seen = set()
    out = []
    for v in viol:
        if v['kind'] in seen:
            continue
        seen.add(v['kind'])
        v['yaml'] = c['yaml'].splitlines()
        v['issued'] = [{k: vv for k, vv in r.items() if k in (
            'cmd', 'target', 'state', 'msg', 'step', 'result', 'exc',
            'skipped')} for r in h.issued]
        out.append(v)
    return out


def gen_staggered(D, G):
    """A task owning several sub-workflow executions that progress at
    different rates (with-items over sub-workflows, some children waiting
    for an asynchronous action)."""
    n = D.int(2, 4)

    def T(**kw):
        t = G.new_task()
        t['form'] = {'action': 'noop'}
        t.update(kw)
        return t
    root = {'name': 'wf', 'type': 'direct', 'input': {}, 'defaults': None,
            'output': None, 'lang': 'yaql', 'order': ['w', 'after'],
            'tasks': {'w': T(workflow='sub0'), 'after': T()}}
    root['tasks']['w']['with-items'] = 'i in <% [' + ', '.join(
        str(i) for i in range(n)) + '] %>'
    if D.bool(0.4):
        root['tasks']['w']['concurrency'] = D.int(1, n)
    root['tasks']['w']['on-success'] = [{'to': 'after', 'guard': None}]
    sub = {'name': 'sub0', 'type': 'direct', 'input': {}, 'defaults': None,
           'output': None, 'lang': 'yaql', 'order': ['s0_0', 's0_1'],
           'tasks': {'s0_0': T(action='std.async_noop'), 's0_1': T()}}
    sub['tasks']['s0_0']['on-success'] = [{'to': 's0_1', 'guard': None}]
    root['subs'] = [sub]
    # per child instance: the async action either completes or stays open
    occ = [(['ok', 'a'] if D.bool(0.5) else ['never']) for _ in range(n)]
    outc = {'w': [['ok', 'a']], 'after': [['ok', 'a']],
            's0_0': occ, 's0_1': [['ok', 'a']]}
    return root, outc


def gen_cancel_mix(D, G):
    """Three levels; the middle execution has a task running the leaf and a
    sibling branch, both feeding a join (or the sibling simply fails): when
    the leaf is cancelled, the middle execution finishes with a cancelled
    task *and* an unhandled failed task at once.  The root handles errors of
    its task (on-error), so a cancel misreported as an error would continue
    above the cancelled execution."""
    def T(**kw):
        t = G.new_task()
        t['form'] = {'action': 'noop'}
        t.update(kw)
        return t
    root = {'name': 'wf', 'type': 'direct', 'input': {}, 'defaults': None,
            'output': None, 'lang': 'yaql',
            'order': ['run_sub', 'recover', 'after'],
            'tasks': {'run_sub': T(workflow='sub0'), 'recover': T(),
                      'after': T()}}
    root['tasks']['run_sub']['on-error'] = [{'to': 'recover', 'guard': None}]
    root['tasks']['run_sub']['on-success'] = [{'to': 'after', 'guard': None}]
    variant = D.int(0, 2)
    sub = {'name': 'sub0', 'type': 'direct', 'input': {}, 'defaults': None,
           'output': None, 'lang': 'yaql', 'order': ['a', 'b', 'j'],
           'tasks': {'a': T(workflow='sub1'), 'b': T(), 'j': T()}}
    outc = {'run_sub': [['ok', 'a']], 'recover': [['ok', 'a']],
            'after': [['ok', 'a']], 'a': [['ok', 'a']], 'b': [['ok', 'a']],
            'j': [['ok', 'a']], 'leaf_t': [['never']]}
    if variant == 0:
        sub['tasks']['j']['join'] = 'all'
        sub['tasks']['a']['on-success'] = [{'to': 'j', 'guard': None}]
        sub['tasks']['b']['on-success'] = [{'to': 'j', 'guard': None}]
    elif variant == 1:
        outc['b'] = [['err', 'boom-b']]          # fails without on-error
        sub['tasks']['a']['on-success'] = [{'to': 'j', 'guard': None}]
    else:
        sub['tasks']['j']['join'] = 'all'
        sub['tasks']['a']['on-complete'] = [{'to': 'j', 'guard': None}]
        sub['tasks']['b']['on-error'] = [{'to': 'j', 'guard': None}]
    leaf = {'name': 'sub1', 'type': 'direct', 'input': {}, 'defaults': None,
            'output': None, 'lang': 'yaql', 'order': ['leaf_t'],
            'tasks': {'leaf_t': T(action='std.async_noop')}}
    root['subs'] = [sub, leaf]
    return root, outc


def gen_backlog(D, G):
    """A definition that pauses itself with work left behind the `pause`
    command (the command backlog), next to an asynchronous task that is
    still running when the stop arrives and answers afterwards."""
    def T(**kw):
        t = G.new_task()
        t['form'] = {'action': 'noop', 'adv': D.bool(0.3)}
        t.update(kw)
        return t
    k = D.int(1, 2)
    later = ['b%d' % i for i in range(k)]
    tasks = {'p': T(), 'slow': T(action='std.async_noop')}
    order = ['p', 'slow'] + later + ['after']
    clause = D.choice(['on-success', 'on-complete'])
    lst = [{'to': 'pause', 'guard': None}] + [
        {'to': b, 'guard': None} for b in later]
    if D.bool(0.3):
        lst.insert(0, {'to': 'noop', 'guard': None})
    tasks['p'][clause] = lst
    for b in later:
        tasks[b] = T()
    tasks['after'] = T()
    tasks['slow']['on-success'] = [{'to': 'after', 'guard': None}]
    prog = {'name': 'wf', 'type': 'direct', 'input': {}, 'defaults': None,
            'output': None, 'lang': 'yaql', 'order': order, 'tasks': tasks,
            'backlog_shape': True}
    outc = {n: [['ok', 'a']] for n in order}
    outc['slow'] = [['never']]
    return prog, outc


def strategy(max_tasks=6):
    from hypothesis import strategies as st
    from mv.gen import workflows as G
    from mv.gen.draw import HDraw
    from mv import enginerun, history

    @st.composite
    def strat(draw):
        D = HDraw(draw)
        # (the `pause` command leaves the commands behind it in a backlog:
        # a stop must also keep those from being dispatched later)
        F = G.feats(with_items=True, async_actions=True, cycles=False,
                    expr_failures=False, pause_cmd=D.bool(0.35))
        if D.bool(0.12):
            prog, outc = gen_backlog(D, G)
            # stop (mostly cancel) once the definition paused itself, then
            # the answer of the asynchronous action, then whatever remains
            plan = [{'at': D.int(6, 30), 'cmd': 'stop', 'sel': 0,
                     'state': D.choice(['CANCELLED', 'CANCELLED', 'SUCCESS',
                                        'ERROR']),
                     'msg': D.choice([None, 'stop-msg'])},
                    {'at': D.int(31, 60), 'sel': 0, 'cmd': 'async_result',
                     'ok': D.bool(0.7)}]
            return {'prog': prog, 'outcomes': outc, 'input': {},
                    'sched': enginerun.gen_schedule(D, max_devs=3),
                    'salt': D.int(0, 20), 'plan': plan}
        if D.bool(0.1):
            prog, outc = gen_cancel_mix(D, G)
            # cancel the leaf (third execution by creation) or the middle one
            plan = [{'at': D.int(8, 30), 'cmd': 'stop',
                     'sel': D.choice([2, 2, 1]), 'state': 'CANCELLED',
                     'msg': D.choice([None, 'stop-msg'])}]
            return {'prog': prog, 'outcomes': outc, 'input': {},
                    'sched': enginerun.gen_schedule(D, max_devs=3),
                    'salt': D.int(0, 20), 'plan': plan}
        if D.bool(0.35):
            prog, outc = gen_staggered(D, G)
        elif D.bool(0.6):
            prog, outc = G.gen_nested(D, F, max_tasks)
        else:
            prog, outc = G.gen_direct(D, F, max_tasks)
        plan = [{'at': D.int(0, 40), 'cmd': 'stop', 'sel': D.int(0, 3),
                 'state': D.choice(['SUCCESS', 'ERROR', 'CANCELLED',
                                    'CANCELLED']),
                 'msg': D.choice([None, 'stop-msg'])}]
        if D.bool(0.35):
            plan.append({'at': D.int(0, plan[0]['at']), 'cmd': 'pause',
                         'sel': D.int(0, 3)})
        for _ in range(D.int(0, 2)):
            plan.append({'at': D.int(0, 60), 'sel': D.int(0, 3),
                         'cmd': D.choice(['late_result', 'async_result']),
                         'ok': D.bool(0.7)})
        return {'prog': prog, 'outcomes': outc, 'input': {},
                'sched': enginerun.gen_schedule(D, max_devs=5),
                'salt': D.int(0, 20), 'plan': plan}
    return strat()


def shard_main(shard, nshards, seed, tier, opts):
    from mv import sim
    st = runner.Stats()
    sched_type = common.shard_scheduler(shard)
    sim.boot(sched_type)
    fail = runner.drive(strategy(opts.get('max_tasks', 6)),
                        lambda c: check_case(c, st),
                        opts.get('examples', 40), seed * 1000 + shard,
                        time_budget=opts.get('time_budget'),
                        shrink_budget=opts.get('shrink_budget', 30), stats=st)
    if fail:
        fail['scheduler'] = sched_type
    return {'stats': st.to_dict(), 'failures': [fail] if fail else []}


def replay(path):
    from mv import sim
    f = common.replay_case(path)
    sim.boot(f.get('scheduler', 'default'))
    return check_case(f['case'])


def main(tier, seed):
    t0 = time.time()
    opts = {'examples': common.budget(tier, 50, 1200),
            'max_tasks': common.budget(tier, 6, 9),
            'time_budget': common.budget(tier, 80, 1500),
            'shrink_budget': common.budget(tier, 25, 120)}
    results = runner.run_shards('mv.props.c11', 'shard_main', 16, seed, tier,
                                opts)
    stats = runner.Stats.merge([r['stats'] for r in results])
    herrs = [h for r in results for h in r['harness_errors']]
    failures = sorted([f for r in results for f in r['failures']],
                      key=lambda f: len(str(f)))
    return runner.finish(
        PROP, tier, seed, 'exploration', t0, stats, failures[:1], herrs, RULE,
        assumptions=['stop is issued through the engine client as PUT '
                     '/executions does; only RUNNING targets carry the '
                     '"holds the requested state" obligation',
                     'single engine process; SQLite'])
