"""C14 Definition validation is total and accepted definitions are stable
and runnable.

langmut: valid definitions (hand-written corpus covering the DSL keys, the
repository's test resources, output of the workflow generator, generator
output wrapped into workbooks) are mutated structure-aware and written in a
drawn YAML style; each text is submitted through the REST controllers
(validate + create).  Oracles:

  totality      every response is 2xx or 4xx, within a generous time bound;
  round trip    for an accepted text, the spec rebuilt from every stored
                definition row (JSON as stored) presents the same view
                (all getters, recursively) as the spec parsed from the text;
                every task spec rebuilt from its own to_dict() too;
  extraction    every member written in a workbook / multi-workflow text is
                stored under its own name, and the stored definition text of
                a member parses to exactly the member that was written;
  run           an accepted workflow run with all spec caches dropped before
                every engine step ends with the same rows as the plain run,
                and neither run produces an undeclared engine exception.
"""
import inspect
import json
import signal
import os
import time

from mv import runner
from mv.props import common

PROP = 'C14'
RULE = ('case = (kind workflow|workbook|action, base definition from corpus '
        '/ repository resources / workflow generator, 0..3 structure-aware '
        'mutations, YAML style, optional text-level mutation). Non-trivial = '
        'at least one mutation applied and the document still reached '
        'schema/semantic validation (parsed as a YAML mapping), or the text '
        'was accepted and went through round-trip / extraction / run '
        'oracles; distinct = hash(text)')

PLURAL = {'wf': 'workflows', 'wb': 'workbooks', 'act': 'actions'}
HANG_S = 30


class _Hang(BaseException):
    pass


def _alarm(signum, frame):
    raise _Hang()


def view(spec, depth=0):
    from mistral.lang import base as lbase
    if depth > 14:
        return '<deep>'
    if spec is None or isinstance(spec, (bool, int, float, str)):
        return spec
    if isinstance(spec, lbase.BaseSpecList):
        return {'__list__': {str(k): view(v, depth + 1)
                             for k, v in spec.items.items()}}
    if isinstance(spec, lbase.BaseSpec):
        out = {'__cls__': type(spec).__name__}
        for name in sorted(dir(spec)):
            if not name.startswith('get_'):
                continue
            m = getattr(spec, name)
            if not callable(m):
                continue
            try:
                sig = inspect.signature(m)
            except (TypeError, ValueError):
                continue
            if any(p.default is inspect.Parameter.empty and p.kind in (
                    p.POSITIONAL_ONLY, p.POSITIONAL_OR_KEYWORD)
                    for p in sig.parameters.values()):
                continue
            try:
                v = m()
            except Exception as e:   # noqa
                v = ['<raises>', type(e).__name__]
            out[name] = view(v, depth + 1)
        return out
    if isinstance(spec, dict):
        return {str(k): view(v, depth + 1) for k, v in spec.items()}
    if isinstance(spec, (list, tuple)):
        return [view(v, depth + 1) for v in spec]
    if isinstance(spec, (set, frozenset)):
        return sorted(view(v, depth + 1) for v in spec)
    return repr(spec)


def _diff(a, b, path='', out=None, limit=4):
    out = [] if out is None else out
    if len(out) >= limit:
        return out
    if type(a) is not type(b):
        out.append('%s: %r != %r' % (path, a, b))
    elif isinstance(a, dict):
        for k in sorted(set(a) | set(b)):
            if k not in a or k not in b:
                out.append('%s/%s: only on one side' % (path, k))
            else:
                _diff(a[k], b[k], path + '/' + k, out, limit)
    elif isinstance(a, list):
        if len(a) != len(b):
            out.append('%s: len %d != %d' % (path, len(a), len(b)))
        else:
            for i, (x, y) in enumerate(zip(a, b)):
                _diff(x, y, '%s[%d]' % (path, i), out, limit)
    elif a != b:
        out.append('%s: %r != %r' % (path, a, b))
    return out


def _bases(kind):
    """Base definitions of a kind: corpus + repository resources."""
    import os
    from mv.gen import langmut
    from mv import sim
    out = list(langmut.CORPUS[kind])
    root = os.path.join(sim.REPO_ROOT if hasattr(sim, 'REPO_ROOT')
                        else os.environ.get('VERIF_REPO', '/repo'),
                        'mistral', 'tests', 'resources')
    names = {'wf': ['wf_v2.yaml', 'single_wf.yaml', 'wf_jinja.yaml',
                    'wf_task_ex_concurrency.yaml'],
             'wb': ['wb_v2.yaml', 'wb_with_nested_wf.yaml'],
             'act': ['action_v2.yaml', 'action_jinja.yaml']}[kind]
    for n in names:
        p = os.path.join(root, n)
        if os.path.exists(p):
            with open(p) as f:
                out.append(f.read())
    return out


def gen_case(D):
    """Only draws; the text is built by build_text (pure function)."""
    kind = D.choice(['wf', 'wf', 'wf', 'wb', 'wb', 'act'])
    src = D.choice(['corpus', 'corpus', 'generator'])
    case = {'kind': kind, 'src': src, 'base': D.int(0, 9),
            'gen_seed': D.int(0, 10 ** 6) if src == 'generator' else 0,
            'mut_seed': D.int(0, 10 ** 9), 'max_mut': D.choice([0, 1, 3, 3]),
            'styles': D.bool(0.7)}
    if kind == 'act':
        case['src'] = 'corpus'
    return case


def build_text(case):
    import yaml
    from mv.gen import langmut, workflows as G
    from mv.gen.draw import RDraw
    kind = case['kind']
    if case['src'] == 'generator':
        Dg = RDraw(case['gen_seed'])
        r = Dg.int(0, 2)
        if r == 0:
            prog, _ = G.gen_direct(Dg, None, 6)
            base = G.render(prog)
        elif r == 1:
            prog, _ = G.gen_reverse(Dg, None, 6)
            base = G.render(prog)
        else:
            prog, _ = G.gen_nested(Dg, None, 5)
            base = G.render_all(prog)
        if kind == 'wb':
            doc = yaml.safe_load(base)
            doc.pop('version', None)
            base = yaml.safe_dump({'version': '2.0', 'name': 'gwb',
                                   'workflows': doc}, sort_keys=False)
    else:
        bs = _bases(kind)
        base = bs[case['base'] % len(bs)]
    Dm = RDraw(case['mut_seed'])
    text, info = langmut.gen_doc(Dm, kind, base, case['max_mut'],
                                 case['styles'])
    return text, info


def _req(rest, ctx, url, text, method='POST'):
    old = signal.signal(signal.SIGALRM, _alarm)
    signal.alarm(HANG_S)
    t0 = time.time()
    try:
        st, body = rest.request(ctx, method, url, text=text)
        return st, body, None, time.time() - t0
    except _Hang:
        return None, None, 'hang', time.time() - t0
    except Exception as e:   # noqa
        return None, None, '%s: %s' % (type(e).__name__, str(e)[:300]), \
            time.time() - t0
    finally:
        signal.alarm(0)
        signal.signal(signal.SIGALRM, old)


def _fault(body):
    if isinstance(body, dict):
        return str(body.get('faultstring') or body)[:400]
    return str(body)[:400]


def check_case(case, stats=None):
    text, info = build_text(case)
    return check_text(case['kind'], text, info, stats, case)


def check_text(kind, text, info=None, stats=None, case=None):
    import yaml
    from mv import sim, rest
    from mistral.lang import parser
    viol = []
    sim.reset(salt=0)
    ctx = rest.make_ctx('p1')
    plural = PLURAL[kind]
    # ---- totality
    accepted = False
    statuses = {}
    for ep in ('/v2/%s/validate' % plural, '/v2/%s' % plural):
        st, body, err, dt = _req(rest, ctx, ep, text)
        statuses[ep] = st
        if err == 'hang':
            viol.append({'kind': 'validation-hangs',
                         'detail': {'endpoint': ep, 'seconds': HANG_S}})
        elif err is not None:
            viol.append({'kind': 'internal-error-on-submission',
                         'detail': {'endpoint': ep, 'raised': err}})
        elif st >= 500 or st < 200 or (300 <= st < 400):
            viol.append({'kind': 'internal-error-on-submission',
                         'detail': {'endpoint': ep, 'status': st,
                                    'fault': _fault(body)}})
        elif ep.endswith('/validate'):
            if st != 200 or not isinstance(body, dict) or \
                    'valid' not in body:
                if not (400 <= st < 500):
                    viol.append({'kind': 'validate-endpoint-odd-answer',
                                 'detail': {'status': st,
                                            'body': _fault(body)}})
        else:
            accepted = st == 201
    parsed = None
    try:
        parsed = yaml.safe_load(text)
    except Exception:
        pass
    reached = isinstance(parsed, dict)
    checks = []
    if accepted and not viol:
        try:
            _accepted_checks(kind, text, parsed, viol, checks, sim, parser,
                             ctx)
        except sim.HarnessError:
            raise
    # ---- the update path (PUT of the same text): total as well, and for
    # an accepted definition an update with identical text must leave the
    # stored form (definition text and spec) as it was
    if not viol:
        tables = ('workflow_definitions_v2', 'action_definitions_v2',
                  'workbooks_v2')
        before = {t: sorted(map(str, _rows(sim, t))) for t in tables} \
            if accepted else None
        st, body, err, dt = _req(rest, ctx, '/v2/%s' % plural, text, 'PUT')
        checks.append('update_path')
        if err == 'hang':
            viol.append({'kind': 'validation-hangs',
                         'detail': {'endpoint': 'PUT', 'seconds': HANG_S}})
        elif err is not None or st >= 500 or st < 200 or 300 <= st < 400:
            viol.append({'kind': 'internal-error-on-submission',
                         'detail': {'endpoint': 'PUT /v2/%s' % plural,
                                    'raised': err, 'status': st,
                                    'fault': _fault(body)}})
        elif accepted:
            after = {t: sorted(map(str, _rows(sim, t))) for t in tables}
            if st != 200:
                viol.append({'kind': 'update-with-identical-text-refused',
                             'detail': {'status': st,
                                        'fault': _fault(body)}})
            elif after != before:
                viol.append({'kind': 'update-with-identical-text-changed-'
                             'stored-form', 'detail': {
                                 t: [x[:200] for x in sorted(
                                     set(after[t]) ^ set(before[t]))[:2]]
                                 for t in tables if after[t] != before[t]}})
    if stats is not None:
        mutated = bool(info and (any(not o.startswith(('skipped', 'noop'))
                                     for o in info['ops'])
                                 or info['text_op'] != 'none'))
        nontriv = (mutated and reached) or accepted
        tg = ['kind_' + kind, 'accepted' if accepted else 'rejected']
        if info:
            tg.append('style_' + info['style'])
            tg.append('mutations_%d' % len(info['ops']))
            if info['text_op'] != 'none':
                tg.append('textop_' + info['text_op'])
        if case:
            tg.append('src_' + case['src'])
        if not reached:
            tg.append('not_a_mapping_or_unparseable')
        for c in checks:
            tg.append('did_' + c)
        stats.case(runner.fp(text), nontriv, tg,
                   {'kind': kind, 'text': text[:1500], 'ops': info and
                    info['ops'], 'accepted': accepted,
                    'status': statuses})
    seen = set()
    out = []
    for v in viol:
        if v['kind'] in seen:
            continue
        seen.add(v['kind'])
        v['text'] = text[:3000]
        out.append(v)
    return out


def _rows(sim, table):
    import sqlalchemy as sa
    eng = sim._mods['sa_base'].get_engine()
    with eng.connect() as conn:
        return [dict(r._mapping) for r in conn.execute(
            sa.text('SELECT name, definition, spec FROM %s' % table))]


_EXPR_DICTS_TASK = ('input', 'publish', 'publish-on-error', 'publish-on-skip')
_EXPR_DICTS_WF = ('output', 'vars')


def _expression_leaves(kind, parsed):
    """(path, string) for every direct string value of the mappings the
    language documents as expression-bearing: task input / publish /
    publish-on-error / publish-on-skip, transition-level publish scopes,
    workflow output / vars, ad-hoc action base-input."""
    out = []
    if not isinstance(parsed, dict):
        return out
    if kind == 'wb':
        wfs = parsed.get('workflows') or {}
        acts = parsed.get('actions') or {}
    elif kind == 'wf':
        wfs = {k: v for k, v in parsed.items() if k != 'version'}
        acts = {}
    else:
        wfs = {}
        acts = {k: v for k, v in parsed.items() if k != 'version'}

    def direct(path, d):
        if isinstance(d, dict):
            for k, v in d.items():
                if isinstance(v, str):
                    out.append((path + (str(k),), v))
    if isinstance(wfs, dict):
        for wn, wf in wfs.items():
            if not isinstance(wf, dict):
                continue
            for key in _EXPR_DICTS_WF:
                direct((str(wn), key), wf.get(key))
            tasks = wf.get('tasks')
            groups = list(tasks.items()) if isinstance(tasks, dict) else []
            if isinstance(wf.get('task-defaults'), dict):
                groups.append(('task-defaults', wf['task-defaults']))
            for tn, t in groups:
                if not isinstance(t, dict):
                    continue
                for key in _EXPR_DICTS_TASK:
                    direct((str(wn), str(tn), key), t.get(key))
                for cl in ('on-success', 'on-error', 'on-complete',
                           'on-skip'):
                    c = t.get(cl)
                    if isinstance(c, dict) and isinstance(
                            c.get('publish'), dict):
                        for scope in ('branch', 'global', 'atomic'):
                            direct((str(wn), str(tn), cl, 'publish', scope),
                                   c['publish'].get(scope))
    if isinstance(acts, dict):
        for an, a in acts.items():
            if isinstance(a, dict):
                direct((str(an), 'base-input'), a.get('base-input'))
    return out


def _malformed_expressions(kind, parsed):
    """Leaves of an *accepted* definition that the expression validator
    itself rejects when asked about that one string."""
    from mistral import expressions as expr
    from mistral import exceptions as exc
    bad = []
    for path, v in _expression_leaves(kind, parsed):
        if '<%' not in v and '{{' not in v and '{%' not in v:
            continue
        try:
            expr.validate(v)
        except exc.MistralException as e:
            bad.append({'path': list(path), 'value': v[:80],
                        'error': str(e)[:100]})
        except Exception:
            pass      # an internal error there is the totality check's case
    return bad


def _accepted_checks(kind, text, parsed, viol, checks, sim, parser, ctx):
    import yaml
    bad = _malformed_expressions(kind, parsed)
    checks.append('expression_leaves')
    if bad:
        viol.append({'kind': 'accepted-definition-with-malformed-expression',
                     'detail': {'leaves': bad[:3]}})
    wf_rows = {r['name']: r for r in _rows(sim, 'workflow_definitions_v2')}
    act_rows = {r['name']: r for r in _rows(sim, 'action_definitions_v2')}
    # ---- what was written
    written_wfs = {}     # stored name -> (key, body, spec-from-text)
    written_acts = {}
    if kind == 'wf':
        lst = parser.get_workflow_list_spec_from_yaml(text, validate=True)
        for s in lst.get_workflows():
            written_wfs[s.get_name()] = (s.get_name(), None, s)
        keys = [k for k in parsed if k != 'version']
        for k in keys:
            if str(k) not in wf_rows:
                viol.append({'kind': 'written-workflow-not-stored',
                             'detail': {'workflow': k,
                                        'stored': sorted(wf_rows)}})
        for k in list(written_wfs):
            body = parsed.get(k)
            written_wfs[k] = (k, body, written_wfs[k][2])
    elif kind == 'wb':
        wb = parser.get_workbook_spec_from_yaml(text, validate=True)
        wbn = wb.get_name()
        for k, body in (parsed.get('workflows') or {}).items():
            nm = '%s.%s' % (wbn, k)
            sp = None
            for s in (wb.get_workflows() or []):
                if s.get_name() == k:
                    sp = s
            written_wfs[nm] = (k, body, sp)
            if nm not in wf_rows:
                viol.append({'kind': 'written-workflow-not-stored',
                             'detail': {'workflow': nm,
                                        'stored': sorted(wf_rows)}})
        for k, body in (parsed.get('actions') or {}).items():
            nm = '%s.%s' % (wbn, k)
            sp = None
            for s in (wb.get_actions() or []):
                if s.get_name() == k:
                    sp = s
            written_acts[nm] = (k, body, sp)
            if nm not in act_rows:
                viol.append({'kind': 'written-action-not-stored',
                             'detail': {'action': nm,
                                        'stored': sorted(act_rows)}})
        extra = set(wf_rows) - set(written_wfs)
        if extra:
            viol.append({'kind': 'stored-workflow-not-written',
                         'detail': {'stored': sorted(extra),
                                    'written': sorted(written_wfs)}})
    else:
        lst = parser.get_action_list_spec_from_yaml(text, validate=True)
        for s in lst.get_actions():
            written_acts[s.get_name()] = (s.get_name(),
                                          parsed.get(s.get_name()), s)
            if s.get_name() not in act_rows:
                viol.append({'kind': 'written-action-not-stored',
                             'detail': {'action': s.get_name(),
                                        'stored': sorted(act_rows)}})
    # ---- round trip through the stored form
    checks.append('roundtrip')
    for nm, (k, body, sp) in sorted(written_wfs.items(), key=str):
        row = wf_rows.get(nm)
        if row is None or sp is None:
            continue
        stored = json.loads(row['spec']) if isinstance(row['spec'], str) \
            else row['spec']
        try:
            s2 = parser.get_workflow_spec(json.loads(json.dumps(stored)))
            if s2 is None:
                raise ValueError('parser returned None')
            v2 = view(s2)
        except Exception as e:   # noqa
            viol.append({'kind': 'stored-spec-cannot-be-reread',
                         'detail': {'workflow': nm, 'error': '%s: %s' % (
                             type(e).__name__, str(e)[:300])}})
            continue
        d = _diff(view(sp), v2)
        if d:
            viol.append({'kind': 'stored-spec-differs-from-written',
                         'detail': {'workflow': nm, 'diff': d}})
        if s2.to_dict() != stored:
            viol.append({'kind': 'stored-spec-not-stable',
                         'detail': {'workflow': nm}})
        for t in s2.get_tasks():
            try:
                t2 = parser.get_task_spec(json.loads(json.dumps(t.to_dict())))
                if t2 is None:
                    raise ValueError('parser returned None')
                d = _diff(view(t), view(t2))
            except Exception as e:   # noqa
                viol.append({'kind': 'stored-task-spec-cannot-be-reread',
                             'detail': {'workflow': nm,
                                        'task': t.get_name(),
                                        'error': '%s: %s' % (
                                            type(e).__name__,
                                            str(e)[:300])}})
                continue
            if d:
                viol.append({'kind': 'task-spec-differs-after-reread',
                             'detail': {'workflow': nm, 'task': t.get_name(),
                                        'diff': d}})
    for nm, (k, body, sp) in sorted(written_acts.items(), key=str):
        row = act_rows.get(nm)
        if row is None or sp is None:
            continue
        stored = json.loads(row['spec']) if isinstance(row['spec'], str) \
            else row['spec']
        try:
            s2 = parser.get_action_spec(json.loads(json.dumps(stored)))
            if s2 is None:
                raise ValueError('parser returned None')
            d = _diff(view(sp), view(s2))
        except Exception as e:   # noqa
            viol.append({'kind': 'stored-spec-cannot-be-reread',
                         'detail': {'action': nm, 'error': '%s: %s' % (
                             type(e).__name__, str(e)[:300])}})
            continue
        if d:
            viol.append({'kind': 'stored-spec-differs-from-written',
                         'detail': {'action': nm, 'diff': d}})
    # ---- extraction of members: the stored text is the member written
    multi = kind == 'wb' or (kind == 'wf' and len(written_wfs) > 1)
    if multi:
        checks.append('extraction')
        for nm, (k, body, sp) in sorted(written_wfs.items(), key=str):
            row = wf_rows.get(nm)
            if row is None:
                continue
            _check_member_text('workflow', nm, k, body, row['definition'],
                               viol, kind)
        if kind == 'wb':
            for nm, (k, body, sp) in sorted(written_acts.items(), key=str):
                row = act_rows.get(nm)
                if row is None:
                    continue
                _check_member_text('action', nm, k, body, row['definition'],
                                   viol, kind)
    elif kind == 'wf' and len(written_wfs) == 1:
        nm = list(written_wfs)[0]
        if nm in wf_rows and wf_rows[nm]['definition'] != text:
            viol.append({'kind': 'stored-text-differs-from-submitted',
                         'detail': {'workflow': nm}})
    # ---- run with and without cache eviction
    if kind in ('wf', 'wb') and not viol:
        _run_check(kind, text, parsed, written_wfs, viol, checks, sim)


def _check_member_text(what, nm, key, body, definition, viol, kind):
    import yaml
    try:
        got = yaml.safe_load(definition)
    except Exception as e:   # noqa
        viol.append({'kind': 'member-text-unparseable',
                     'detail': {what: nm, 'error': str(e)[:200],
                                'definition': definition[:400]}})
        return
    want = {key: body}
    if isinstance(got, dict) and 'version' in got and kind == 'wf':
        got = dict(got)
        got.pop('version')
    if got != want:
        viol.append({'kind': 'member-text-is-not-the-member-written',
                     'detail': {what: nm,
                                'definition': (definition or '')[:600],
                                'written': json.dumps(want,
                                                      default=str)[:600]}})


def _run_check(kind, text, parsed, written_wfs, viol, checks, sim):
    from mv import enginerun
    from mistral.services import workbooks as wb_service
    # pick the first written workflow whose required input we can supply
    if not written_wfs:
        return
    nm = sorted(written_wfs, key=str)[0]
    for cand in written_wfs:
        if cand in ('wf_rich', 'wb.main', 'first', 'wf', 'gwb.wf'):
            nm = cand
    k, body, sp = written_wfs[nm]
    if sp is None:
        return
    wf_input = {}
    try:
        for p, dflt in (sp.get_input() or {}).items():
            if type(dflt).__name__ == 'NotDefined' or \
                    repr(dflt).startswith('<') and 'NotDefined' in repr(dflt):
                wf_input[p] = 1
    except Exception:
        return
    params = {}
    if sp.get_type() == 'reverse':
        tasks = [t.get_name() for t in sp.get_tasks()]
        if not tasks:
            return
        params['task_name'] = sorted(tasks)[-1]
    results = []
    for evict in (False, True):
        sim.reset(salt=0)
        sim.W.outcome = enginerun.OutcomeMap({})
        if kind == 'wb':
            kind_, val = sim.call(wb_service.create_workbook_v2, text)
        else:
            kind_, val = sim.call(sim.wf_service.create_workflows, text)
        if kind_ != 'ok':
            viol.append({'kind': 'accepted-definition-refused-by-service',
                         'detail': {'error': str(val)[:300]}})
            return
        r, val = sim.start_workflow(nm, dict(wf_input), **params)
        res = enginerun.RunResult()
        if r != 'ok':
            results.append(('start-error', type(val).__name__))
            err = val
            mro = [c.__name__ for c in type(err).__mro__]
            if not any(c in common.DECLARED for c in mro):
                viol.append({'kind': 'accepted-definition-breaks-engine',
                             'detail': {'workflow': nm, 'at': 'start',
                                        'error': '%s: %s' % (
                                            type(err).__name__,
                                            str(err)[:300])}})
                return
            continue
        res.wf_ex_id = val.id
        hook = (lambda rec: sim.clear_spec_caches()) if evict else None
        if evict:
            sim.clear_spec_caches()
        q, n = enginerun.run_until_quiet(enginerun.Schedule(None), 400,
                                         hook=hook)
        res.snap = sim.snapshot()
        res.errors = sim.W.errors
        res.swallowed = sim.W.swallowed
        und = common.undeclared_errors(res)
        if und:
            viol.append({'kind': 'accepted-definition-breaks-engine',
                         'detail': {'workflow': nm, 'evict': evict,
                                    'error': json.dumps(und[0],
                                                        default=str)[:500]}})
            return
        results.append((q, enginerun.canon_rows(res)))
    checks.append('run')
    if len(results) == 2 and results[0] != results[1]:
        if results[0][0] is True and results[1][0] is True:
            viol.append({'kind': 'run-differs-after-cache-eviction',
                         'detail': {'workflow': nm,
                                    'plain': json.dumps(results[0][1],
                                                        default=str)[:500],
                                    'evicted': json.dumps(results[1][1],
                                                          default=str)[:500]}})


def shard_main(shard, nshards, seed, tier, opts):
    from mv import rest
    from hypothesis import strategies as st_
    from mv.gen.draw import HDraw
    st = runner.Stats()
    rest.boot(auth_enable=False)

    @st_.composite
    def strat(draw):
        return gen_case(HDraw(draw))

    known = runner.known_for(PROP)

    def run(c):
        out = []
        for v in check_case(c, st):
            k = _known(v, known)
            if k:
                st.counters['known:' + k] += 1
            else:
                out.append(v)
        return out

    fail = runner.drive(strat(), run, opts.get('examples', 150),
                        seed * 1000 + shard,
                        time_budget=opts.get('time_budget'),
                        shrink_budget=opts.get('shrink_budget', 100),
                        stats=st)
    return {'stats': st.to_dict(), 'failures': [fail] if fail else []}


def _known(v, known):
    for k in known:
        m = k.get('match', {})
        if v['kind'] not in m.get('kinds', []):
            continue
        blob = json.dumps(v['detail'], default=str)
        if all(s in blob for s in m.get('detail_contains', [])):
            return k['id']
    return None


def replay(path):
    from mv import rest
    f = common.replay_case(path)
    rest.boot(auth_enable=False)
    if 'text' in f.get('case', {}):
        return check_text(f['case']['kind'], f['case']['text'])
    return check_case(f['case'])


def fuzz_shard(shard, nshards, seed, tier, opts):
    """Coverage-guided part (mv/props/c14_fuzz.py): one libFuzzer process
    per shard for a bounded time; every crash it leaves is decoded back to a
    text and confirmed through the REST-level check before it counts."""
    import glob
    import re
    import shutil
    import subprocess
    import sys
    from mv import rest
    st = runner.Stats()
    try:
        sys.path.insert(0, '/verif/.deps')
        import atheris
    except Exception:
        st.counters['fuzz_atheris_unavailable'] += 1
        return {'stats': st.to_dict(), 'failures': []}
    from mv.props import c14_fuzz
    art = os.path.join(runner.OUT, '.work', 'c14fuzz', str(shard))
    shutil.rmtree(art, ignore_errors=True)
    os.makedirs(art)
    script = os.path.join(os.path.dirname(os.path.abspath(__file__)),
                          'c14_fuzz.py')
    env = dict(os.environ)
    env['PYTHONPATH'] = '/verif:/verif/.deps' + (
        ':' + env['PYTHONPATH'] if env.get('PYTHONPATH') else '')
    cmd = [sys.executable, '-W', 'ignore', script, art,
           '-max_total_time=%d' % opts.get('fuzz_seconds', 60),
           '-seed=%d' % (seed * 1000 + shard + 1), '-len_control=0',
           '-print_final_stats=1']
    try:
        p = subprocess.run(cmd, env=env, stdout=subprocess.PIPE,
                           stderr=subprocess.STDOUT,
                           timeout=opts.get('fuzz_seconds', 60) + 240)
        out = p.stdout.decode('utf-8', 'replace')
    except subprocess.TimeoutExpired as e:
        out = (e.stdout or b'').decode('utf-8', 'replace')
        st.counters['fuzz_process_timeout'] += 1
    m = re.search(r'stat::number_of_executed_units:\s*(\d+)', out)
    if m:
        st.counters['fuzz_execs'] += int(m.group(1))
    m = re.search(r'cov: (\d+) ft: (\d+) corp: (\d+)', out[::-1][::-1])
    for mm in re.finditer(r'cov: (\d+) ft: (\d+) corp: (\d+)', out):
        m = mm
    if m:
        st.counters['fuzz_cov_sum_over_shards'] += int(m.group(1))
        st.counters['fuzz_corpus_units'] += int(m.group(3))
    failures = []
    crashes = sorted(glob.glob(os.path.join(art, 'crash-*')) +
                     glob.glob(os.path.join(art, 'timeout-*')))
    if crashes:
        rest.boot(auth_enable=False)
    for c in crashes[:5]:
        data = open(c, 'rb').read()
        kind, text, info = c14_fuzz.decode(data, atheris)
        st.counters['fuzz_crashes_parser_level'] += 1
        viol = check_text(kind, text, info, None, None)
        if viol:
            failures.append({'case': {'kind': kind, 'text': text,
                                      'src': 'atheris',
                                      'artifact': os.path.basename(c)},
                             'violations': viol})
        else:
            st.counters['fuzz_crash_not_confirmed_at_rest_level'] += 1
    st.counters['fuzz_shards'] += 1
    return {'stats': st.to_dict(), 'failures': failures[:1]}


def main(tier, seed):
    t0 = time.time()
    opts = {'examples': common.budget(tier, 150, 6000),
            'time_budget': common.budget(tier, 80, 1500),
            'shrink_budget': common.budget(tier, 60, 300),
            'fuzz_seconds': common.budget(tier, 0, 240)}
    if os.environ.get('VERIF_C14_FUZZ_ONLY'):
        # (development switch: only the coverage-guided part, N seconds)
        opts['fuzz_seconds'] = int(os.environ['VERIF_C14_FUZZ_ONLY'])
        opts['examples'] = 2
    results = runner.run_shards('mv.props.c14', 'shard_main', 16, seed, tier,
                                opts)
    if opts['fuzz_seconds'] and not any(r['failures'] for r in results):
        results = results + runner.run_shards(
            'mv.props.c14', 'fuzz_shard', 16, seed, tier, opts)
    stats = runner.Stats.merge([r['stats'] for r in results])
    herrs = [h for r in results for h in r['harness_errors']]
    failures = sorted([f for r in results for f in r['failures']],
                      key=lambda f: len(str(f)))
    return runner.finish(
        PROP, tier, seed, 'exploration', t0, stats, failures[:1], herrs,
        RULE,
        assumptions=[
            'texts are submitted through the pecan application in-process '
            '(no web server); HTTP status >= 500 or an exception escaping '
            'the application is an internal error',
            'hang = one request longer than %d s (typical: 10 ms)' % HANG_S,
            'the stored form is what the database returns (JSON)',
            'run oracle: FIFO schedule, every action succeeds, at most 400 '
            'engine steps; runs that hit the bound are not compared',
        ])
