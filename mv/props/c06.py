"""C06 Duplicate or redelivered messages have the effect of a single delivery.

Part A (engine): generated runs with a drawn fault plan duplicating action
results, start_task requests and the id-carrying start_workflow request
(1-2 extra copies, delivered immediately, later, or after the run finished),
optionally combined with pauses of asynchronous actions / workflows.  Oracle:
every duplicate delivery leaves the database unchanged (it may be rejected
with any exception), no action execution is dispatched twice or accepts two
results, and the canonical final rows equal those of the duplicate-free run.
Part B (executor): the real DefaultExecutor.run_action with generated
(redelivered, safe_rerun, action behaviour, engine-client behaviour).
"""
import time

from mv import runner
from mv.props import common

PROP = 'C06'
FINAL = ('SUCCESS', 'ERROR', 'CANCELLED')
RULE = ('engine case = program + outcomes + schedule + duplicate plan '
        '(kind in result/start_task/start_workflow, n-th message of that '
        'kind, 1-2 copies, delivered now/later/after the end) + optional '
        'pause/async-update commands; executor case = (redelivered, '
        'safe_rerun, action behaviour, client behaviour). Non-trivial = a '
        'duplicate delivered non-adjacent to its original or after the task '
        '/ workflow completed, or an executor case with redelivered=True or '
        'a failing client; distinct = hash(program, plan, choices)')


def check_engine_case(case, stats=None):
    from mv import history, enginerun, sim
    from mv.gen import workflows as G
    c = dict(case)
    c['yaml'] = G.render_all(case['prog'])
    h = history.run_history(c, observe=False)
    res = h.res
    if res.start_error is not None:
        return []
    viol = []
    final = res.snap
    # every duplicate delivery leaves the rows unchanged
    nontriv = False
    for d in h.dup_log:
        if d['changed']:
            viol.append({'kind': 'duplicate-delivery-changed-rows',
                         'detail': {'message': d['label'],
                                    'changed': d['changed'][:6],
                                    'exc': d.get('exc')}})
    # no action dispatched twice / accepted twice
    for aid, n in res.dispatch_count.items():
        if n > 1:
            a = final['action'].get(aid) or {}
            viol.append({'kind': 'action-dispatched-twice',
                         'detail': {'action': a.get('name'), 'n': n}})
    per_task = {}
    for a in final['action'].values():
        per_task.setdefault(a['task_execution_id'], []).append(a)
    # differential against the duplicate-free run
    if not viol and h.dup_log:
        c0 = dict(c)
        c0['dups'] = []
        base = history.run_history(c0, observe=False)
        rows = enginerun.canon_rows(res, error_output=False)
        rows0 = enginerun.canon_rows(base.res, error_output=False)
        if rows != rows0:
            c1 = dict(c0)
            c1['sched'] = {'policy': 'lifo'}
            other = history.run_history(c1, observe=False)
            if enginerun.canon_rows(other.res, error_output=False) != rows0:
                if stats:
                    stats.counters['differential_skipped_not_confluent'] += 1
            else:
                from mv.props.c02 import _diff
                viol.append({'kind': 'result-differs-from-single-delivery',
                             'detail': {'diff': _diff(rows0, rows),
                                        'dups': [d['label'] for d in
                                                 h.dup_log]}})
        elif stats:
            stats.counters['differential_compared'] += 1
    for e in common.undeclared_errors(res):
        if e.get('label', '').endswith('~dup') or e.get('type') in (
                'ValueError',):
            continue     # a duplicate may be rejected with any exception
        viol.append({'kind': 'undeclared-error-in-engine-event',
                     'detail': {k: e.get(k) for k in
                                ('type', 'msg', 'frame', 'where', 'label')}})
    if stats is not None:
        tg = G.tags(case['prog'], case['outcomes'])
        for d in case.get('dups') or []:
            tg.append('dup_%s_%s' % (d['kind'], d.get('where', 'later')))
        for d in h.dup_log:
            tg.append('delivered_dup')
            if d.get('exc'):
                tg.append('dup_rejected_with_exception')
        nontriv = any(d.get('where') in ('later', 'end')
                      for d in case.get('dups') or []) and bool(h.dup_log)
        stats.case(runner.fp([case['prog'], case.get('dups'),
                              case.get('plan'), res.sched_taken]), nontriv,
                   sorted(set(tg)), common.sample_of(c, res, {
                       'dups': case.get('dups'),
                       'delivered': h.dup_log[:6]}))
    for v in viol:
        v['yaml'] = c['yaml'].splitlines()
        v['issued'] = [{k: vv for k, vv in r.items() if k in (
            'cmd', 'target', 'state', 'step', 'result', 'exc', 'skipped')}
            for r in h.issued]
    return viol


# --------------------------------------------------------------------------
# executor

def check_executor_case(ec, stats=None):
    from mv import sim
    from mistral.executors import default_executor
    from mistral import exceptions as exc
    from mistral_lib import actions as ml_actions
    calls = {'run': 0, 'complete': []}

    class Act(ml_actions.Action):
        def run(self, context):
            calls['run'] += 1
            b = ec['action']
            if b == 'value':
                return 'v'
            if b == 'result_ok':
                return ml_actions.Result(data='d')
            if b == 'result_error':
                return ml_actions.Result(error='e')
            if b == 'raise':
                raise RuntimeError('action failed')
            if b == 'async':
                return None
            raise AssertionError(b)

        def is_sync(self):
            return ec['action'] != 'async'

    class Client(object):
        def on_action_complete(self, action_ex_id, result, wf_action=False,
                               async_=False):
            n = len(calls['complete'])
            beh = ec['client']
            rec = {'error': result.is_error(), 'ok': True}
            if beh == 'mistral_exc_first' and n == 0:
                rec['ok'] = False
                calls['complete'].append(rec)
                raise exc.MistralException('cannot serialize')
            if beh == 'other_exc_first' and n == 0:
                rec['ok'] = False
                calls['complete'].append(rec)
                raise RuntimeError('bus down')
            calls['complete'].append(rec)

    ex = default_executor.DefaultExecutor()
    if not hasattr(ex, '_engine_client'):
        raise sim.HarnessError('DefaultExecutor._engine_client missing')
    ex._engine_client = Client()
    viol = []
    try:
        ex.run_action(Act(), 'aid-1' if ec['with_id'] else None,
                      ec['safe_rerun'], {}, redelivered=ec['redelivered'],
                      timeout=None)
    except Exception as e:
        # a failing message bus may surface; anything else must not escape
        if ec['client'] == 'ok':
            viol.append({'kind': 'executor-raised',
                         'detail': '%s: %s' % (type(e).__name__, e)})
    delivered = [c for c in calls['complete'] if c['ok']]
    if ec['redelivered'] and not ec['safe_rerun']:
        if calls['run'] != 0:
            viol.append({'kind': 'unsafe-redelivered-action-was-run',
                         'detail': ec})
        if ec['with_id'] and not (len(calls['complete']) >= 1 and all(
                c['error'] for c in calls['complete'])):
            viol.append({'kind': 'redelivered-action-not-reported-as-error',
                         'detail': {'case': ec,
                                    'calls': calls['complete']}})
    else:
        if calls['run'] != 1:
            viol.append({'kind': 'action-run-count-%d' % calls['run'],
                         'detail': ec})
    if len(delivered) > 1:
        viol.append({'kind': 'executor-reported-two-results',
                     'detail': {'case': ec, 'calls': calls['complete']}})
    if stats is not None:
        stats.case(runner.fp(['exec', ec]),
                   ec['redelivered'] or ec['client'] != 'ok',
                   ['executor_case', 'exec_action_' + ec['action'],
                    'exec_client_' + ec['client']], {'executor_case': ec})
    return viol


def strategy(max_tasks=5):
    from hypothesis import strategies as st
    from mv.gen import workflows as G
    from mv.gen.draw import HDraw
    from mv import enginerun, history

    @st.composite
    def strat(draw):
        D = HDraw(draw)
        if D.bool(0.12):
            return {'executor': {
                'redelivered': D.bool(0.5), 'safe_rerun': D.bool(0.5),
                'with_id': D.bool(0.7),
                'action': D.choice(['value', 'result_ok', 'result_error',
                                    'raise', 'async']),
                'client': D.choice(['ok', 'ok', 'mistral_exc_first',
                                    'other_exc_first'])}}
        F = G.feats(with_items=True, async_actions=True, cycles=False,
                    expr_failures=False, partial_joins=False,
                    state_commands=False, wi_subwf=False, async_p=0.3)
        if D.bool(0.4):
            prog, outc = G.gen_nested(D, F, max_tasks)
        else:
            prog, outc = G.gen_direct(D, F, max_tasks)
        dups = []
        for _ in range(D.int(1, 4)):
            dups.append({'kind': D.choice(['result', 'start_task',
                                           'start_task', 'result',
                                           'start_workflow']),
                         'nth': D.int(0, 4), 'copies': D.int(1, 2),
                         'where': D.choice(['now', 'later', 'end', 'end'])})
        plan = []
        if D.bool(0.5):
            plan = history.gen_plan(
                D, max_cmds=3, horizon=30,
                kinds=('pause', 'resume', 'action_update', 'async_result',
                       'action_update'))
            for c in plan:
                if c['cmd'] == 'action_update':
                    c['state'] = D.choice(['PAUSED', 'RUNNING', 'PAUSED'])
        with_id = D.bool(0.4)
        if D.bool(0.3):
            # the definition changes between the deliveries of a message
            plan.append({'at': D.int(0, 25), 'cmd': 'update_defs', 'sel': 0})
            plan.sort(key=lambda c: c['at'])
        if with_id and D.bool(0.4):
            # the id-carrying start request is redelivered while the run is
            # in progress, after the definition was updated
            dups.insert(0, {'kind': 'start_workflow', 'nth': 0, 'copies': 1,
                            'where': D.choice(['later', 'later', 'now'])})
            plan = [c for c in plan if c['cmd'] != 'update_defs']
            plan.append({'at': D.int(1, 4), 'cmd': 'update_defs', 'sel': 0})
            plan.sort(key=lambda c: c['at'])
        return {'prog': prog, 'outcomes': outc, 'input': {},
                'sched': enginerun.gen_schedule(D, max_devs=5),
                'salt': D.int(0, 20), 'dups': dups, 'plan': plan,
                'start_with_id': with_id, 'resume_at_end': True}
    return strat()


def check_case(case, stats=None):
    if 'executor' in case:
        return check_executor_case(case['executor'], stats)
    return check_engine_case(case, stats)


def shard_main(shard, nshards, seed, tier, opts):
    from mv import sim
    st = runner.Stats()
    sched_type = common.shard_scheduler(shard)
    sim.boot(sched_type)
    fail = runner.drive(strategy(opts.get('max_tasks', 5)),
                        lambda c: check_case(c, st),
                        opts.get('examples', 50), seed * 1000 + shard,
                        time_budget=opts.get('time_budget'),
                        shrink_budget=opts.get('shrink_budget', 30), stats=st)
    if fail:
        fail['scheduler'] = sched_type
    return {'stats': st.to_dict(), 'failures': [fail] if fail else []}


def replay(path):
    from mv import sim
    f = common.replay_case(path)
    sim.boot(f.get('scheduler', 'default'))
    return check_case(f['case'])


def main(tier, seed):
    t0 = time.time()
    opts = {'examples': common.budget(tier, 60, 1500),
            'max_tasks': common.budget(tier, 5, 8),
            'time_budget': common.budget(tier, 80, 1500),
            'shrink_budget': common.budget(tier, 25, 120)}
    results = runner.run_shards('mv.props.c06', 'shard_main', 16, seed, tier,
                                opts)
    stats = runner.Stats.merge([r['stats'] for r in results])
    herrs = [h for r in results for h in r['harness_errors']]
    failures = sorted([f for r in results for f in r['failures']],
                      key=lambda f: len(str(f)))
    return runner.finish(
        PROP, tier, seed, 'fault_enumeration', t0, stats, failures[:1],
        herrs, RULE,
        assumptions=['redelivery semantics of oslo.messaging are modelled by '
                     'the duplicate plan (a copy is delivered after its '
                     'original was processed)',
                     'single engine process; SQLite'])
