"""C18 The expiration policy deletes only what it is configured to delete.

Generated populations of execution trees (state, age with ties, project,
nesting with tasks/actions/sub-executions) x settings (older_than incl.
unset, max_finished_executions incl. 0, batch_size, ignored_states); one call
of the real run_execution_expiration_policy under the virtual clock; oracle =
invariants of mv-side reference (robust to timestamp ties).
"""
import datetime
import time

from mv import runner
from mv.props import common

PROP = 'C18'
TERMINAL = ('SUCCESS', 'ERROR', 'CANCELLED')
ALL_STATES = ('IDLE', 'RUNNING', 'PAUSED', 'SUCCESS', 'ERROR', 'CANCELLED')
RULE = ('population of 0..12 execution trees (root state, age in minutes '
        'from a small set so that ties occur, project A/B, nested tasks, '
        'actions and sub-executions up to depth 3 with their own states and '
        'ages) x older_than in {unset,1,5,30,10^4} x max_finished in '
        '{0,1,2,3,5,100} x batch_size in {0,1,2,3,50} x ignored_states; one '
        'evaluation; non-trivial = at least one eligible and one ineligible '
        'tree and (batch size below the eligible count, or exactly one option '
        'set, or nested tree deleted); distinct = hash(population, settings)')


class FetchBudget(BaseException):
    pass


def gen_case(D):
    n = D.int(0, 12)
    ages = [0, 1, 2, 4, 5, 6, 29, 30, 31, 60, 600, 20000]
    trees = []

    def gen_tree(depth):
        node = {'state': D.choice(ALL_STATES) if D.bool(0.45)
                else D.choice(TERMINAL),
                'age': D.choice(ages), 'tasks': [],
                # minutes between creation and the last update: the age of
                # the statement counts from the last update (an execution
                # that ran for days and finished a minute ago is young)
                'ran': D.choice([0, 0, 1, 7, 45, 700, 50000])}
        nt = D.int(0, 2) if depth < 3 else 0
        for _ in range(nt):
            t = {'actions': D.int(0, 2), 'subs': []}
            if depth < 3 and D.bool(0.35):
                for _ in range(D.int(1, 2)):
                    t['subs'].append(gen_tree(depth + 1))
            node['tasks'].append(t)
        return node

    for i in range(n):
        tr = gen_tree(1)
        tr['project'] = D.choice(['A', 'B'])
        trees.append(tr)
    settings = {
        'older_than': D.choice([None, 1, 5, 30, 10000, 5, 30]),
        'max_finished': D.choice([0, 0, 1, 2, 3, 5, 100]),
        'batch_size': D.choice([0, 1, 2, 3, 50]),
        'ignored': sorted(D.subset(TERMINAL, 0, 3)) if D.bool(0.35) else [],
    }
    return {'trees': trees, 'settings': settings}


def _populate(case):
    """Insert the population; returns {root_id: {'rows': set, ...}}."""
    from mv import sim
    import sqlalchemy as sa
    db_api = sim.db_api
    now = sim.now()
    info = {}
    counter = [0]
    stamps = []

    def nid(p):
        counter[0] += 1
        return '%s-%04d' % (p, counter[0])

    def mk_wf(node, parent_task, root_rows, project):
        wid = nid('wf')
        vals = {'id': wid, 'name': 'w', 'workflow_name': 'w',
                'state': node['state'], 'spec': {}, 'input': {},
                'output': {}, 'params': {}}
        if parent_task:
            vals['task_execution_id'] = parent_task
        db_api.create_workflow_execution(vals)
        root_rows.add(('wf', wid))
        stamps.append(('workflow_executions_v2', wid,
                       now - datetime.timedelta(minutes=node['age']),
                       project, node.get('ran', 0)))
        for t in node['tasks']:
            tid = nid('t')
            db_api.create_task_execution({
                'id': tid, 'workflow_execution_id': wid, 'name': 'tk',
                'state': 'SUCCESS', 'spec': {}, 'in_context': {},
                'published': {}, 'runtime_context': {}})
            root_rows.add(('task', tid))
            for _ in range(t['actions']):
                aid = nid('a')
                db_api.create_action_execution({
                    'id': aid, 'task_execution_id': tid, 'name': 'std.noop',
                    'state': 'SUCCESS', 'input': {}, 'output': {}})
                root_rows.add(('action', aid))
            for sub in t['subs']:
                mk_wf(sub, tid, root_rows, project)
        return wid

    with db_api.transaction():
        for tr in case['trees']:
            rows = set()
            rid = mk_wf(tr, None, rows, tr['project'])
            info[rid] = {'rows': rows, 'state': tr['state'],
                         'age': tr['age'], 'project': tr['project'],
                         'nested': any(t['subs'] for t in tr['tasks'])}
    eng = sim._mods['sa_base'].get_engine()
    with eng.begin() as conn:
        for table, rid, ts, project, ran in stamps:
            conn.execute(sa.text(
                'UPDATE %s SET updated_at=:t, created_at=:c, project_id=:p '
                'WHERE id=:i' % table), {
                    't': ts.strftime('%Y-%m-%d %H:%M:%S.%f'),
                    'c': (ts - datetime.timedelta(minutes=ran)).strftime(
                        '%Y-%m-%d %H:%M:%S.%f'),
                    'p': 'proj-' + project, 'i': rid})
    return info


def _present():
    from mv import sim
    import sqlalchemy as sa
    eng = sim._mods['sa_base'].get_engine()
    out = set()
    with eng.begin() as conn:
        for kind, table in (('wf', 'workflow_executions_v2'),
                            ('task', 'task_executions_v2'),
                            ('action', 'action_executions_v2')):
            for (i,) in conn.execute(sa.text('SELECT id FROM %s' % table)):
                out.add((kind, i))
    return out


def check_case(case, stats=None):
    from mv import sim
    from mistral.services import expiration_policy as ep
    sim.reset()
    S = case['settings']
    CONF = sim.CONF
    grp = 'execution_expiration_policy'
    for k in ('older_than', 'max_finished_executions', 'batch_size',
              'ignored_states', 'evaluation_interval'):
        CONF.clear_override(k, grp)
    CONF.set_override('evaluation_interval', 1, grp)
    if S['older_than'] is not None:
        CONF.set_override('older_than', S['older_than'], grp)
    CONF.set_override('max_finished_executions', S['max_finished'], grp)
    CONF.set_override('batch_size', S['batch_size'], grp)
    CONF.set_override('ignored_states', list(S['ignored']), grp)
    info = _populate(case)
    before = _present()
    assert all(r in before for i in info.values() for r in i['rows'])
    # fetch budget
    db_api = sim.db_api
    calls = [0]
    limit = len(before) + 6
    origs = {}

    def wrap(name):
        orig = getattr(db_api, name)
        origs[name] = orig

        def w(*a, **kw):
            calls[0] += 1
            if calls[0] > limit:
                raise FetchBudget()
            return orig(*a, **kw)
        setattr(db_api, name, w)

    wrap('get_expired_executions')
    wrap('get_superfluous_executions')
    viol = []
    try:
        ctx = sim.auth_context.MistralContext(
            user_id=None, project_id=None, auth_token=None, is_admin=True)
        sim.auth_context.set_ctx(ctx)
        try:
            ep.run_execution_expiration_policy(None, ctx)
        except FetchBudget:
            viol.append({'kind': 'evaluation-does-not-terminate',
                         'detail': 'more than %d fetches' % limit})
        except Exception as e:
            viol.append({'kind': 'evaluation-raised',
                         'detail': '%s: %s' % (type(e).__name__,
                                               str(e)[:200])})
    finally:
        for k, v in origs.items():
            setattr(db_api, k, v)
        sim._cleanup_session()
        sim.auth_context.set_ctx(sim.CTX)
        for k in ('older_than', 'max_finished_executions', 'batch_size',
                  'ignored_states', 'evaluation_interval'):
            CONF.clear_override(k, grp)
    after = _present()

    # ---- reference
    ignored = set(S['ignored'])
    eligible = {r for r, i in info.items()
                if i['state'] in TERMINAL and i['state'] not in ignored}
    expired = {r for r in eligible if S['older_than'] is not None
               and info[r]['age'] > S['older_than']}
    # age == older_than: the code says "<", the option help "or more":
    # either behaviour is accepted at the boundary.
    boundary = {r for r in eligible if S['older_than'] is not None
                and info[r]['age'] == S['older_than']}
    deleted_roots = {r for r in info if ('wf', r) not in after}
    kept_roots = set(info) - deleted_roots
    if not any(v['kind'].startswith('evaluation') for v in viol):
        for r in deleted_roots - eligible:
            viol.append({'kind': 'deleted-ineligible-execution',
                         'detail': info[r] and {
                             'state': info[r]['state'],
                             'age': info[r]['age']}})
        for r in expired & kept_roots:
            viol.append({'kind': 'expired-execution-kept',
                         'detail': {'state': info[r]['state'],
                                    'age': info[r]['age']}})
        mf = S['max_finished']
        kept_el = sorted(info[r]['age'] for r in kept_roots & eligible)
        if mf and len(kept_el) > mf:
            viol.append({'kind': 'more-finished-executions-kept-than-allowed',
                         'detail': {'kept': len(kept_el), 'max': mf}})
        for r in (deleted_roots & eligible) - expired - boundary:
            # deleted although not expired: must be beyond the newest mf
            if not mf:
                viol.append({'kind': 'deleted-unexpired-execution',
                             'detail': {'state': info[r]['state'],
                                        'age': info[r]['age']}})
                continue
            newer_or_same = [k for k in kept_roots & eligible
                             if info[k]['age'] <= info[r]['age']]
            if len(newer_or_same) < mf:
                viol.append({'kind': 'deleted-within-newest-max-finished',
                             'detail': {'age': info[r]['age'],
                                        'kept_ages': kept_el, 'max': mf}})
        for d in deleted_roots & eligible:
            for k in kept_roots & eligible:
                if info[d]['age'] < info[k]['age'] and k not in expired \
                        and d not in boundary:
                    viol.append({'kind': 'newer-deleted-while-older-kept',
                                 'detail': {'deleted_age': info[d]['age'],
                                            'kept_age': info[k]['age']}})
                    break
    # tree completeness holds even when the evaluation raised
    for r, i in info.items():
        gone = [x for x in i['rows'] if x not in after]
        if r in deleted_roots:
            left = [x for x in i['rows'] if x in after]
            if left:
                viol.append({'kind': 'deleted-tree-left-rows',
                             'detail': sorted(left)[:5]})
        elif gone:
            viol.append({'kind': 'kept-tree-lost-rows',
                         'detail': {'root_state': i['state'],
                                    'lost': sorted(gone)[:5]}})
    if stats is not None:
        inel = set(info) - eligible
        one_opt = (S['older_than'] is None) != (not S['max_finished'])
        nontriv = bool(eligible and inel and (
            (S['batch_size'] and S['batch_size'] < len(eligible)) or one_opt
            or any(info[r]['nested'] for r in deleted_roots)))
        tg = ['older_than_%s' % ('unset' if S['older_than'] is None
                                 else 'set'),
              'max_finished_%s' % ('set' if S['max_finished'] else 'unset'),
              'batch_%s' % S['batch_size'],
              'deleted_some' if deleted_roots else 'deleted_none']
        if S['ignored']:
            tg.append('ignored_states')
        if any(info[r]['nested'] for r in deleted_roots):
            tg.append('deleted_nested_tree')
        stats.case(runner.fp(case), nontriv, tg, {
            'settings': S, 'roots': [(i['state'], i['age'], i['project'],
                                      len(i['rows'])) for i in info.values()],
            'deleted_roots': len(deleted_roots)})
        stats.counters['fetches'] += calls[0]
    return viol


def shard_main(shard, nshards, seed, tier, opts):
    from mv import sim
    from hypothesis import strategies as st_
    from mv.gen.draw import HDraw
    sim.boot('default')
    st = runner.Stats()

    @st_.composite
    def strat(draw):
        return gen_case(HDraw(draw))

    fail = runner.drive(strat(), lambda c: check_case(c, st),
                        opts.get('examples', 150), seed * 1000 + shard,
                        time_budget=opts.get('time_budget'),
                        shrink_budget=opts.get('shrink_budget', 150),
                        stats=st)
    return {'stats': st.to_dict(), 'failures': [fail] if fail else []}


def replay(path):
    from mv import sim
    f = common.replay_case(path)
    sim.boot('default')
    return check_case(f['case'])


def main(tier, seed):
    t0 = time.time()
    opts = {'examples': common.budget(tier, 450, 4000),
            'time_budget': common.budget(tier, 80, 1200)}
    results = runner.run_shards('mv.props.c18', 'shard_main', 16, seed, tier,
                                opts)
    stats = runner.Stats.merge([r['stats'] for r in results])
    herrs = [h for r in results for h in r['harness_errors']]
    failures = sorted([f for r in results for f in r['failures']],
                      key=lambda f: len(str(f)))
    return runner.finish(
        PROP, tier, seed, 'exploration', t0, stats, failures[:1], herrs, RULE,
        assumptions=['rows are inserted directly through the DB api with '
                     'forged timestamps/projects; SQLite foreign-key cascade '
                     'stands in for MySQL/PostgreSQL cascade'])
