"""C10 Pause creates no new tasks; resume continues to the same result.

Histories restricted to pause / resume commands at drawn points (root or
nested execution, any time), on generated programs (direct, nested,
with-items, retry-free).  Oracles: (a) an acknowledged pause leaves the
execution and its unfinished sub-executions PAUSED; (b) no task execution is
created in an execution that is PAUSED before and after the creating event;
(c) differential: after the final resume and quiescence the canonical rows
equal those of the same (program, outcomes) run without any pause — only for
programs that are empirically order-independent (two unpaused runs under
different schedules agree; otherwise counted and skipped).
"""
import time

from mv import runner
from mv.props import common

PROP = 'C10'
FINAL = ('SUCCESS', 'ERROR', 'CANCELLED')
RULE = ('history = generated program + outcomes + schedule + plan of 1..4 '
        'pause/resume commands on drawn executions at drawn steps; paused '
        'executions are resumed at the end; non-trivial = a pause issued '
        'while >=1 engine event was pending AND >=1 task completed between '
        'that pause and the next resume; distinct = hash(program, plan, '
        'choices taken)')


def _descendants(snap, wid):
    out = []
    todo = [wid]
    while todo:
        w = todo.pop()
        for t in snap['task'].values():
            if t['wf_ex_id'] != w:
                continue
            for c in snap['wf'].values():
                if c['task_execution_id'] == t['id']:
                    out.append(c['id'])
                    todo.append(c['id'])
    return out


def _retriggered(final):
    """Known finding join-retrigger in the run that just ended (reads the
    compare-and-swap log of the current world)."""
    from mv import sim
    join_ids = {t['id'] for t in final['task'].values()
                if t.get('spec_join') is not None}
    return [c_ for c_ in sim.W.cas
            if c_['fn'] == 'update_task_execution_state' and c_['matched']
            and c_['id'] in join_ids and c_['to'] == 'WAITING'
            and c_['from'] not in (None, 'WAITING')]


def check_case(case, stats=None):
    from mv import history, enginerun, sim
    from mv.gen import workflows as G
    c = dict(case)
    c['yaml'] = G.render_all(case['prog'])
    viol = []
    # --- paused run
    h = history.run_history(c, observe=True)
    res = h.res
    if res.start_error is not None:
        return []
    # resume everything still paused (bounded), as an operator would
    sched = enginerun.Schedule({'policy': 'fifo'})
    for _ in range(6):
        snap = sim.snapshot()
        paused = [w for w in snap['wf'].values() if w['state'] == 'PAUSED'
                  and w['task_execution_id'] is None]
        if not paused:
            paused = [w for w in snap['wf'].values()
                      if w['state'] == 'PAUSED']
        if not paused:
            break
        w = sorted(paused, key=lambda x: x['created_at'])[0]
        r = sim.call(sim.rpc_clients.get_engine_client().resume_workflow,
                     w['id'])
        h.issued.append({'cmd': 'resume', 'final': True, 'step': sim.W.step,
                         'target': ('wf', w['id'], w['name'], 'PAUSED'),
                         'result': r[0]})
        h.snaps.append((sim.W.step, 'cmd:resume', sim.snapshot()))

        def obs(rec):
            h.snaps.append((rec['step'], '%s:%s' % (rec['kind'],
                                                    rec['label']),
                            sim.snapshot()))
        enginerun.run_until_quiet(sched, 600, observe=obs)
    final = sim.snapshot()
    res.snap = final
    res.errors = sim.W.errors
    res.swallowed = sim.W.swallowed
    res.trace = sim.W.trace
    # (a) acknowledged pause => PAUSED tree
    snaps_by_step = {}
    for step, label, snap in h.snaps:
        snaps_by_step.setdefault(step, snap)
    nontriv = False
    for i, rec in enumerate(h.issued):
        if rec.get('cmd') != 'pause' or rec.get('skipped'):
            continue
        after = snaps_by_step.get(rec['step'])
        tgt = rec['target']
        if rec['result'] != 'ok' or after is None:
            continue
        was = tgt[3]
        if was in FINAL:
            continue
        w = after['wf'].get(tgt[1])
        if w and w['state'] != 'PAUSED':
            viol.append({'kind': 'pause-acknowledged-but-not-paused',
                         'detail': {'wf': tgt[2], 'state_before': was,
                                    'state_after': w['state']}})
        for d in _descendants(after, tgt[1]):
            dw = after['wf'][d]
            if dw['state'] not in FINAL and dw['state'] != 'PAUSED':
                viol.append({
                    'kind': 'sub-execution-not-paused-after-pause',
                    'detail': {'wf': dw['name'], 'state': dw['state']}})
    # (a') whatever paused an execution (the command, the cascade from a
    # paused child, a pause command of the definition): the unfinished
    # sub-executions that exist at that moment are paused with it
    prev_a = None
    for step, label, snap in h.snaps:
        if prev_a is not None:
            for wid, w in snap['wf'].items():
                p = prev_a['wf'].get(wid)
                if p is None or p['state'] == 'PAUSED' \
                        or w['state'] != 'PAUSED':
                    continue
                for d in _descendants(snap, wid):
                    dw = snap['wf'][d]
                    if dw['state'] not in FINAL and dw['state'] != 'PAUSED':
                        viol.append({
                            'kind': 'sub-execution-running-below-execution-'
                                    'that-just-paused',
                            'detail': {'wf': w['name'], 'sub': dw['name'],
                                       'sub_state': dw['state'],
                                       'step': step, 'event': label}})
        prev_a = snap
    # (b) no task created inside a PAUSED execution
    prev = None
    pause_open = {}   # wf id -> step of pause
    for step, label, snap in h.snaps:
        if prev is not None:
            for tid, t in snap['task'].items():
                if tid in prev['task']:
                    continue
                wb = prev['wf'].get(t['wf_ex_id'])
                wa = snap['wf'].get(t['wf_ex_id'])
                if wb and wa and wb['state'] == 'PAUSED' \
                        and wa['state'] == 'PAUSED':
                    viol.append({'kind': 'task-created-in-paused-execution',
                                 'detail': {'task': t['name'],
                                            'wf': wa['name'], 'step': step,
                                            'event': label}})
            # bookkeeping for the non-triviality rule
            for wid, w in snap['wf'].items():
                p = prev['wf'].get(wid)
                if p and p['state'] != 'PAUSED' and w['state'] == 'PAUSED':
                    pause_open[wid] = step
                if p and p['state'] == 'PAUSED' and w['state'] != 'PAUSED':
                    pause_open.pop(wid, None)
            if pause_open:
                for tid, t in snap['task'].items():
                    p = prev['task'].get(tid)
                    if p and p['state'] not in FINAL and t['state'] in FINAL:
                        nontriv_candidate = True
                        if any(r.get('cmd') == 'pause' and
                               r.get('pending_events', 0) >= 1
                               for r in h.issued):
                            nontriv = True
        prev = snap
    for e in common.undeclared_errors(res):
        viol.append({'kind': 'undeclared-error',
                     'detail': {k: e.get(k) for k in
                                ('type', 'msg', 'frame', 'where', 'label')}})
    # (c) differential against the unpaused run
    did_pause = any(r.get('cmd') == 'pause' and r.get('result') == 'ok'
                    and not r.get('skipped') for r in h.issued)
    # known finding join-retrigger: a join put back to WAITING by
    # Task.defer after it had left WAITING (here: the route of a task that
    # completed during the pause is dispatched on resume, after the join
    # already ran).  Classified by shape, counted, not compared.
    join_ids = {t['id'] for t in final['task'].values()
                if t.get('spec_join') is not None}
    retrig = [c_ for c_ in sim.W.cas
              if c_['fn'] == 'update_task_execution_state' and c_['matched']
              and c_['id'] in join_ids and c_['to'] == 'WAITING'
              and c_['from'] not in (None, 'WAITING')]
    if retrig:
        if stats:
            stats.counters['known_shape_join_retrigger_seen'] += 1
        did_pause = False
    wi_sub = any(t.get('with-items') and t.get('workflow')
                 for p_ in [case['prog']] + list(case['prog'].get('subs')
                                                 or [])
                 for t in p_['tasks'].values())
    if wi_sub:
        # known finding withitems-subwf-pause: per-child resume; the
        # differential is not applied (counted), clauses (a), (a'), (b) are
        if stats:
            stats.counters['known_shape_withitems_subwf_no_differential'] += 1
        did_pause = False
    root = final['wf'].get(res.wf_ex_id)
    if did_pause and not viol and root is not None:
        rows_paused = enginerun.canon_rows(res, error_output=False)
        c0 = dict(c)
        c0['plan'] = []
        if _self_pausing(case['prog']):
            # the definition pauses itself (pause-before / pause command):
            # the reference run resumes as soon as nothing else is pending
            c0['resume_at_end'] = True
        base = history.run_history(c0, observe=False)
        rows_base = enginerun.canon_rows(base.res, error_output=False)
        base_retrig = _retriggered(base.res.snap)
        c1 = dict(c0)
        c1['sched'] = {'policy': 'lifo'}
        c1['salt'] = 9
        other = history.run_history(c1, observe=False)
        rows_other = enginerun.canon_rows(other.res, error_output=False)
        base_retrig = base_retrig or _retriggered(other.res.snap)
        if base_retrig:
            # the reference run itself shows the known finding (a join that
            # left WAITING - here typically one that failed early - put back
            # to WAITING by a later inbound route): not a reference
            if stats:
                stats.counters['known_shape_join_retrigger_seen'] += 1
        elif rows_base != rows_other or not base.res.quiescent:
            if stats:
                stats.counters['differential_skipped_not_confluent'] += 1
        elif root['state'] not in FINAL:
            viol.append({'kind': 'not-final-after-resume',
                         'detail': {'state': root['state']}})
        elif rows_paused != rows_base:
            from mv.props.c02 import _diff
            viol.append({'kind': 'result-differs-from-unpaused-run',
                         'detail': {'diff': _diff(rows_base, rows_paused)}})
        else:
            if stats:
                stats.counters['differential_compared'] += 1
    if stats is not None:
        tg = G.tags(case['prog'], case['outcomes'])
        if did_pause:
            tg.append('paused')
        if any('sub' in str(r.get('target')) for r in h.issued
               if r.get('cmd') == 'pause'):
            tg.append('paused_sub_workflow')
        stats.case(runner.fp([case['prog'], case['plan'], res.sched_taken]),
                   nontriv, tg, common.sample_of(c, res, {
                       'issued': [{k: v for k, v in r.items() if k in (
                           'cmd', 'target', 'step', 'result', 'exc',
                           'skipped')} for r in h.issued]}))
    for v in viol:
        v['yaml'] = c['yaml'].splitlines()
        v['issued'] = [{k: vv for k, vv in r.items() if k in (
            'cmd', 'target', 'step', 'result', 'exc', 'skipped')}
            for r in h.issued]
    return viol


def decorate(D, prog, outc):
    """The quantifier's "during retries ... via pause-before": give up to two
    plain action tasks a retry (first attempts fail), a wait-before /
    wait-after delay or pause-before."""
    progs = [prog] + list(prog.get('subs') or [])
    for _ in range(D.int(0, 2)):
        p = D.choice(progs)
        cands = [nm for nm in p['order']
                 if not p['tasks'][nm].get('workflow')
                 and not p['tasks'][nm].get('with-items')
                 and p['tasks'][nm].get('join') is None
                 and not any(p['tasks'][nm].get(k) is not None for k in (
                     'retry', 'wait-before', 'wait-after', 'pause-before'))]
        if not cands:
            continue
        nm = D.choice(cands)
        t = p['tasks'][nm]
        kind = D.choice(['retry', 'retry', 'wait-before', 'wait-after',
                         'pause-before'])
        if kind == 'retry':
            k = D.int(1, 2)
            t['retry'] = {'count': k, 'delay': D.int(0, 2)}
            last = (outc.get(nm) or [['ok', 'a']])[0]
            nfail = D.int(1, k) if last[0] == 'ok' else k + 1
            outc[nm] = [['seq', [['err', 'try-%d' % i]
                                 for i in range(nfail)] + [last]]]
        elif kind == 'pause-before':
            t['pause-before'] = True
        else:
            t[kind] = D.int(1, 2)


def gen_chain(D, G):
    """t0 -> t1 -> ... (2-4 tasks, one successor each) with one `fail` or
    `succeed` command in a drawn clause of a drawn task, in front of or
    behind the edge to the next task."""
    n = D.int(2, 4)
    names = ['t%d' % i for i in range(n)]
    prog = {'name': 'wf', 'type': 'direct', 'tasks': {}, 'order': names,
            'input': {}, 'defaults': None, 'output': None, 'lang': 'yaql',
            'chain': True}
    outc = {}
    for i, nm in enumerate(names):
        t = G.new_task()
        t['form'] = {'action': D.choice(['noop', 'echo']),
                     'single_as_string': D.bool(0.3), 'adv': D.bool(0.2)}
        outc[nm] = [['ok', 'a'] if D.bool(0.75) else ['err', 'boom-' + nm]]
        if i + 1 < n:
            clause = 'on-success' if outc[nm][0][0] == 'ok' else 'on-error'
            if D.bool(0.3):
                clause = 'on-complete'
            t[clause].append({'to': names[i + 1], 'guard': None})
        prog['tasks'][nm] = t
    src = D.choice(names)
    t = prog['tasks'][src]
    clause = D.choice(['on-success', 'on-error', 'on-complete'])
    e = {'to': D.choice(['fail', 'succeed']), 'guard': None}
    if D.bool(0.5):
        e['msg'] = 'm %s %s' % (src, e['to'])
    t[clause].insert(D.int(0, len(t[clause])), e)
    return prog, outc


def gen_wi_children(D, G):
    """One task owns several sub-workflow executions (with-items over a
    workflow, chains of 2-3 tasks); the operator pauses one of the children
    while its siblings are in flight."""
    n = D.int(2, 4)

    def T(**kw):
        t = G.new_task()
        t['form'] = {'action': 'noop'}
        t.update(kw)
        return t
    root = {'name': 'wf', 'type': 'direct', 'input': {}, 'defaults': None,
            'output': None, 'lang': 'yaql', 'order': ['w', 'after'],
            'tasks': {'w': T(workflow='sub0'), 'after': T()}}
    root['tasks']['w']['with-items'] = 'i in <% [' + ', '.join(
        str(i) for i in range(n)) + '] %>'
    if D.bool(0.3):
        root['tasks']['w']['concurrency'] = D.int(2, n)
    root['tasks']['w']['on-success'] = [{'to': 'after', 'guard': None}]
    k = D.int(2, 3)
    names = ['s0_%d' % i for i in range(k)]
    sub = {'name': 'sub0', 'type': 'direct', 'input': {}, 'defaults': None,
           'output': None, 'lang': 'yaql', 'order': names,
           'tasks': {nm: T() for nm in names}}
    for a, b in zip(names, names[1:]):
        sub['tasks'][a]['on-success'] = [{'to': b, 'guard': None}]
    root['subs'] = [sub]
    outc = {nm: [['ok', 'a']] for nm in ['w', 'after'] + names}
    return root, outc


def _self_pausing(prog):
    for p in [prog] + list(prog.get('subs') or []):
        for t in p['tasks'].values():
            if t.get('pause-before'):
                return True
            for c in ('on-success', 'on-error', 'on-complete'):
                if any(e['to'] == 'pause' for e in t.get(c) or []):
                    return True
    return False


def strategy(max_tasks=6):
    from hypothesis import strategies as st
    from mv.gen import workflows as G
    from mv.gen.draw import HDraw
    from mv import enginerun, history

    @st.composite
    def strat(draw):
        D = HDraw(draw)
        F = G.feats(with_items=True, async_actions=False, cycles=False,
                    expr_failures=False, partial_joins=False,
                    state_commands=False, wi_subwf=D.bool(0.2),
                    pause_cmd=D.bool(0.3))
        if D.bool(0.12):
            prog, outc = gen_wi_children(D, G)
            plan = [{'at': D.int(3, 16), 'cmd': 'pause',
                     'sel': D.choice([1, 2, 2, 3])}]
            if D.bool(0.5):
                plan.append({'at': D.int(17, 40), 'cmd': 'resume',
                             'sel': D.int(0, 3)})
            return {'prog': prog, 'outcomes': outc, 'input': {},
                    'sched': enginerun.gen_schedule(D, max_devs=4),
                    'salt': D.int(0, 20), 'plan': plan}
        if D.bool(0.2):
            # `fail` / `succeed` commands only where nothing runs in
            # parallel (a forced completion racing another branch is order
            # dependent by the language): a plain chain
            prog, outc = gen_chain(D, G)
            # an early pause: the rest of the chain completes while paused
            # (everything still paused is resumed at the end)
            plan = [{'at': D.int(1, 10), 'cmd': 'pause', 'sel': 0}]
            if D.bool(0.3):
                plan += history.gen_plan(D, max_cmds=2, horizon=20,
                                         kinds=('pause', 'resume'))
                plan.sort(key=lambda c: c['at'])
            return {'prog': prog, 'outcomes': outc, 'input': {},
                    'sched': enginerun.gen_schedule(D, max_devs=3),
                    'salt': D.int(0, 20), 'plan': plan}
        if D.bool(0.5):
            prog, outc = G.gen_nested(D, F, max_tasks)
        else:
            prog, outc = G.gen_direct(D, F, max_tasks)
        decorate(D, prog, outc)
        plan = history.gen_plan(D, max_cmds=4, horizon=35,
                                kinds=('pause', 'resume', 'pause'))
        if not plan:
            plan = [{'at': D.int(0, 20), 'cmd': 'pause', 'sel': D.int(0, 3)}]
        return {'prog': prog, 'outcomes': outc, 'input': {},
                'sched': enginerun.gen_schedule(D, max_devs=5),
                'salt': D.int(0, 20), 'plan': plan}
    return strat()


def shard_main(shard, nshards, seed, tier, opts):
    from mv import sim
    st = runner.Stats()
    sched_type = common.shard_scheduler(shard)
    sim.boot(sched_type)
    fail = runner.drive(strategy(opts.get('max_tasks', 6)),
                        lambda c: check_case(c, st),
                        opts.get('examples', 30), seed * 1000 + shard,
                        time_budget=opts.get('time_budget'),
                        shrink_budget=opts.get('shrink_budget', 30), stats=st)
    if fail:
        fail['scheduler'] = sched_type
    out = {'stats': st.to_dict(), 'failures': [fail] if fail else []}
    if shard == 0:
        from mv.props import known
        out['known_hits'] = known.run_known(PROP)
    return out


def replay(path):
    from mv import sim
    f = common.replay_case(path)
    sim.boot(f.get('scheduler', 'default'))
    return check_case(f['case'])


def main(tier, seed):
    t0 = time.time()
    opts = {'examples': common.budget(tier, 30, 800),
            'max_tasks': common.budget(tier, 6, 9),
            'time_budget': common.budget(tier, 80, 1500),
            'shrink_budget': common.budget(tier, 25, 120)}
    results = runner.run_shards('mv.props.c10', 'shard_main', 16, seed, tier,
                                opts)
    stats = runner.Stats.merge([r['stats'] for r in results])
    herrs = [h for r in results for h in r['harness_errors']]
    failures = sorted([f for r in results for f in r['failures']],
                      key=lambda f: len(str(f)))
    hits = [h for r in results for h in r.get('known_hits', [])]
    return runner.finish(
        PROP, tier, seed, 'exploration', t0, stats, failures[:1], herrs, RULE,
        known_hits=hits,
        assumptions=['differential oracle applied only to programs that two '
                     'unpaused runs under different schedules show to be '
                     'order independent (others counted)',
                     'single engine process; SQLite'])
