"""Shared pieces of the engine-level checks."""
import json
import os
import time

from mv import runner

DECLARED = ('MistralException', 'MistralError')


def declared(err):
    """Is the recorded exception one of the service's declared types?"""
    return any(c in DECLARED for c in err.get('mro', []))


def undeclared_errors(res, server=False):
    """Undeclared exceptions seen at event boundaries (and, with server=True,
    raised by EngineServer methods before the RPC client decorator wraps
    them into MistralException)."""
    out = []
    seen = set()
    extra = list(getattr(res, 'server_errors', [])) if server else []
    for e in list(res.errors) + list(res.swallowed) + extra:
        if declared(e):
            continue
        k = (e.get('type'), e.get('frame'), e.get('step'))
        if k in seen:
            continue
        seen.add(k)
        out.append(e)
    return out


def engine_case_strategy(max_tasks=8, feats=None, max_devs=6, reverse_p=0.2,
                         flip_input=True, joinshape_p=0.3):
    """Hypothesis strategy producing a JSON-serialisable engine case."""
    from hypothesis import strategies as st
    from mv.gen import workflows as G
    from mv.gen.draw import HDraw
    from mv import enginerun

    @st.composite
    def strat(draw):
        D = HDraw(draw)
        if D.bool(reverse_p):
            prog, outc = G.gen_reverse(D, feats, max_tasks)
        elif D.bool(joinshape_p):
            prog, outc = G.gen_joinshape(D, feats)
        else:
            prog, outc = G.gen_direct(D, feats, max_tasks)
        wf_input = {}
        if flip_input:
            for k in sorted(prog.get('input') or {}):
                if D.bool(0.3):
                    wf_input[k] = not prog['input'][k]
        return {'prog': prog, 'outcomes': outc, 'input': wf_input,
                'sched': enginerun.gen_schedule(D, max_devs=max_devs),
                'salt': D.int(0, 50)}
    return strat()


def shard_scheduler(shard):
    return 'default' if shard % 2 == 0 else 'legacy'


def replay_case(path):
    with open(path) as f:
        d = json.load(f)
    return d['failure']


def sample_of(case, res=None, extra=None):
    from mv.gen import workflows as G
    from mv import enginerun
    s = {'yaml': G.render(case['prog']).splitlines(),
         'outcomes': case.get('outcomes'), 'input': case.get('input'),
         'sched': case.get('sched')}
    if res is not None:
        s['trace'] = enginerun.trace_labels(res, 80)
    if extra:
        s.update(extra)
    return s


def budget(tier, quick, thorough):
    return quick if tier == 'quick' else thorough
