"""C02 The result of a run does not depend on event order, timing or caches.

Metamorphic: for one (program, input, outcomes) — restricted to programs the
reference semantics calls confluent (singleton outcome set), i.e. the
property's own domain — the real engine is run under m schedules (drawn
policies, exhaustive DFS for small programs), with and without
specification-cache eviction before every event and under different id
orders; the canonical final rows must be identical across all runs.
"""
import time

from mv import runner
from mv.props import common

PROP = 'C02'
RULE = ('case = (program, input, outcomes) with singleton reference outcome '
        'set; per case m runs: FIFO baseline, LIFO, kind-priority, seeded '
        'shuffles, drawn deviations, spec-cache eviction before every event, '
        'different id salt, and "warm": after another execution of the same '
        'definitions (other action defaults in the environment, flipped '
        'input flags) ran to its end in the same engine without dropping '
        'caches; the evaluated input of every action execution is part of '
        'the compared rows (every second plain echo task takes its '
        'parameters from the environment action defaults); small programs additionally by DFS over all '
        'choice sequences up to a cap. Non-trivial = a compared pair of runs '
        'whose event orders differ AND the program has >=2 concurrently '
        'enabled tasks (fork / several start tasks / join), or an eviction '
        'run in which >=1 task was created and completed after an eviction; '
        'distinct = hash(program, outcomes, input, choices of the variant). '
        'Second domain: every workflow / workbook definition bundled in the '
        'repository (yaml files, documentation code blocks, string constants '
        'of the unit tests) that static screening places in the property\'s '
        'domain, each run under 7+ schedule / eviction / id-salt variants '
        'with emulated std actions; non-trivial = a variant with >=2 events '
        'enabled at some step that took a non-FIFO choice or evicted caches')


def variants(case, n_shuffles, D=None):
    base = {'policy': 'fifo'}
    out = [('fifo', base, False, case.get('salt', 0))]
    out.append(('lifo', {'policy': 'lifo'}, False, case.get('salt', 0)))
    out.append(('prio-job-last', {'policy': 'prio', 'prio': [
        'act', 'msg', 'ptx', 'clock', 'job']}, False, 7))
    out.append(('prio-act-last', {'policy': 'prio', 'prio': [
        'job', 'ptx', 'msg', 'clock', 'act']}, True, 3))
    for i in range(n_shuffles):
        out.append(('shuffle%d' % i,
                    {'policy': 'shuffle',
                     'seed': (case['sched'].get('seed', 1) * 31 + i) % 99991},
                    i % 2 == 1, 11 + i))
    out.append(('drawn', case['sched'], False, 5))
    out.append(('fifo-evict', base, True, case.get('salt', 0)))
    out.append(('warm', base, False, case.get('salt', 0)))
    return out


def _with_env_defaults(case):
    """Every case runs under an environment with action defaults; tasks
    rendered as a plain `std.echo output="x"` get no input at all on every
    second occurrence, so their parameters come from those defaults."""
    case = dict(case)
    case['env'] = {'__actions': {'std.echo': {'output': 'envE'}}}
    n = 0
    for nm in case['prog']['order']:
        t = case['prog']['tasks'][nm]
        f = t.get('form') or {}
        if f.get('action') == 'echo' and not t.get('action') \
                and not t.get('workflow'):
            n += 1
            if n % 2 == 1:
                f['action'] = 'echo_bare'
    return case


def gen_republish_diamond(D):
    """The version-based merge at a join: the root publishes a scalar x and
    a nested d{a, b}; k parallel branches (1-2 tasks) inherit them; exactly
    one branch republishes x and / or d (whole value, or - through an
    expression - one leaf of it); a full join and a tail read everything and
    the workflow output returns it.  No two unordered tasks publish the same
    variable, so the result is a function of the definition alone, whatever
    order the upstream rows are listed in."""
    from mv.gen import workflows as G
    from mv.props import c05
    prog, outc = c05.gen_diamond(D, G)
    prog['republish_diamond'] = True
    prog.pop('diamond', None)
    prog.pop('pub_p', None)
    prog['lang'] = 'yaql'
    t = prog['tasks']
    t['r']['publish'] = {'x': 'tok:r:x',
                         'd': {'a': 'tok:r:d.a', 'b': 'tok:r:d.b'}}
    branches = [n for n in prog['order'] if n.startswith('b')]
    heads = sorted({n.split('_')[0] for n in branches})
    who = D.choice(heads)
    cand = [n for n in branches if n.split('_')[0] == who]
    pub = {}
    if D.bool(0.7):
        how = D.int(0, 2)
        if how == 0:
            pub['d'] = {'a': 'tok:%s:d.a' % who, 'b': 'tok:%s:d.b' % who}
        elif how == 1:
            pub['d'] = {'a': 'tok:%s:d.a' % who, 'b': 'tok:r:d.b'}
        else:
            pub['d'] = '<% $.d.set(a, "tok:' + who + ':d.a") %>'
    if D.bool(0.5) or not pub:
        pub['x'] = 'tok:%s:x' % who
    t[D.choice(cand)]['publish'] = pub
    prog['output_raw'] = {
        'x': '<% $.get(x, none) %>',
        'd.a': '<% $.get(d, dict()).get(a, none) %>',
        'd.b': '<% $.get(d, dict()).get(b, none) %>'}
    if 'tail' in t:
        t['tail']['publish'] = {'seen_x': '<% $.get(x, none) %>',
                                'seen_d': '<% $.get(d, none) %>'}
    t['j']['publish'] = {'j_x': '<% $.get(x, none) %>',
                         'j_da': '<% $.get(d, dict()).get(a, none) %>'}
    return prog, outc


def check_case(case, stats=None, n_shuffles=3, dfs_cap=0):
    from mv import enginerun
    from mv.gen import workflows as G
    from mv.ref import wfsem
    prog = case['prog']
    if not prog.get('republish_diamond'):
        # (the republish diamond is confluent by construction: full join,
        # all tasks succeed, every variable republished by one branch only)
        model = wfsem.model_for(prog, case.get('input'), case['outcomes'])
        try:
            allowed = model.outcomes_set()
        except wfsem.TooBig:
            if stats:
                stats.counters['excluded_model_too_big'] += 1
            return []
        if model.retrigger_possible:
            if stats:
                stats.counters['excluded_known_shape_join_retrigger'] += 1
            return []
        if len(allowed) != 1:
            if stats:
                stats.counters['excluded_not_confluent_by_reference'] += 1
            return []
    tg = G.tags(prog, case['outcomes'])
    concurrent = any(t in tg for t in ('has_fork', 'has_join', 'multi_start'))
    runs = []
    viol = []
    forced = 'has_command' in tg or 'has_expr_failure' in tg

    def one(label, sched, evict, salt):
        c = dict(case)
        c['sched'] = sched
        c['salt'] = salt
        if evict:
            c['evict'] = ['all']
        if label == 'warm':
            # the same definitions were already run once in this engine,
            # with other action defaults and flipped input flags
            c['warm'] = {
                'env': {'__actions': {'std.echo': {'output': 'envWARM'}}},
                'input': {k: not v for k, v in
                          (prog.get('input') or {}).items()
                          if isinstance(v, bool)}}
        res = enginerun.run_case(c)
        if res.start_error is not None or not res.quiescent:
            return None, res
        return enginerun.canon_rows(res, error_output=not forced,
                                    with_input=True,
                                    root=res.wf_ex_id), res

    base_rows = None
    base_res = None
    for label, sched, evict, salt in variants(case, n_shuffles):
        rows, res = one(label, sched, evict, salt)
        if rows is None:
            # C01's business; here it only makes the case unusable
            if stats:
                stats.counters['skipped_run_not_quiescent'] += 1
            continue
        if base_rows is None:
            base_rows, base_res, base_label = rows, res, label
            continue
        differs = res.sched_taken != base_res.sched_taken
        if stats is not None:
            nontriv = (differs and concurrent) or (evict and res.steps > 3)
            stats.case(runner.fp([prog, case['outcomes'], case.get('input'),
                                  label, res.sched_taken, evict, salt]),
                       nontriv, tg + ['variant_' + label.rstrip('0123456789')],
                       common.sample_of(case, res, {'variant': label,
                                                    'evict': evict}))
        if rows != base_rows:
            viol.append({'kind': 'result-depends-on-schedule-or-cache',
                         'detail': {'variant': label, 'evict': evict,
                                    'salt': salt,
                                    'diff': _diff(base_rows, rows)},
                         'yaml': G.render(prog).splitlines(),
                         'base_sched': base_res.sched_taken,
                         'other_sched': res.sched_taken})
            return viol
    # exhaustive DFS over all choice sequences for small programs
    if dfs_cap and base_rows is not None and len(prog['order']) <= 4:
        prefix = []
        n = 0
        exhausted = False
        while n < dfs_cap:
            rows, res = one('dfs', {'recorded': prefix}, False,
                            case.get('salt', 0))
            n += 1
            if rows is not None:
                if stats is not None:
                    stats.case(runner.fp([prog, case['outcomes'],
                                          res.sched_taken]),
                               concurrent and res.nonfifo > 0,
                               ['variant_dfs'])
                if rows != base_rows:
                    viol.append({
                        'kind': 'result-depends-on-schedule-or-cache',
                        'detail': {'variant': 'dfs',
                                   'diff': _diff(base_rows, rows)},
                        'yaml': G.render(prog).splitlines(),
                        'base_sched': base_res.sched_taken,
                        'other_sched': res.sched_taken})
                    return viol
            prefix = enginerun.dfs_next(res.sched_taken, res.sched_widths)
            if prefix is None:
                exhausted = True
                break
        if stats is not None:
            stats.counters['dfs_programs'] += 1
            stats.counters['dfs_runs'] += n
            if exhausted:
                stats.counters['dfs_programs_exhausted'] += 1
    return viol


def _diff(a, b):
    out = []
    for k in ('wf', 'task'):
        sa, sb = set(map(str, a[k])), set(map(str, b[k]))
        for x in sorted(sa - sb)[:4]:
            out.append('- ' + x[:300])
        for x in sorted(sb - sa)[:4]:
            out.append('+ ' + x[:300])
    return out


def shard_main(shard, nshards, seed, tier, opts):
    from mv import sim
    st = runner.Stats()
    sched_type = common.shard_scheduler(shard)
    sim.boot(sched_type)
    strat = common.engine_case_strategy(max_tasks=opts.get('max_tasks', 7),
                                        max_devs=opts.get('max_devs', 6))
    strat = strat.map(_with_env_defaults)
    from hypothesis import strategies as st_
    from mv.gen.draw import HDraw
    from mv import enginerun as _er

    @st_.composite
    def diamond(draw):
        D = HDraw(draw)
        prog, outc = gen_republish_diamond(D)
        return {'prog': prog, 'outcomes': outc, 'input': {},
                'sched': _er.gen_schedule(D, max_devs=6),
                'salt': D.int(0, 50)}
    strat = st_.one_of(strat, strat, strat, strat, diamond())
    fail = runner.drive(
        strat, lambda c: check_case(c, st, opts.get('n_shuffles', 3),
                                    opts.get('dfs_cap', 0)),
        opts.get('examples', 20), seed * 1000 + shard,
        time_budget=opts.get('time_budget'),
        shrink_budget=opts.get('shrink_budget', 30), stats=st)
    if fail:
        fail['scheduler'] = sched_type
    failures = [fail] if fail else []
    if not fail and opts.get('bundled', True):
        failures.extend(bundled_phase(shard, nshards, seed, tier, st,
                                      sched_type))
    out = {'stats': st.to_dict(), 'failures': failures}
    if shard == 0:
        from mv.props import known
        out['known_hits'] = known.run_known(PROP)
    return out


def bundled_phase(shard, nshards, seed, tier, st, sched_type):
    """Second domain of the property: repository-bundled definitions."""
    from mv.props import bundledrun as R
    keep, hist = R.corpus('c02')
    if shard == 0:
        st.counters.update(hist)
        st.counters['bundled_corpus_in_domain'] += len(keep)
    variants = list(R.VARIANTS)
    if tier == 'thorough':
        for i in range(8):
            variants.append(('shuffle-t%d' % i,
                             {'policy': 'shuffle', 'seed': seed * 100 + i},
                             i % 2 == 1, 20 + i))
    else:
        keep = [e for e in keep if (int(e['h'], 16) + seed) % 2 == 0]
        variants.insert(5, ('shuffle-s', {'policy': 'shuffle',
                                          'seed': seed * 7 + 1}, False, 9))
    for i, e in enumerate(keep):
        if i % nshards != shard:
            continue
        fails = R.check_entry(e, st, variants=variants, discipline=False)
        if fails:
            for f in fails:
                f['scheduler'] = sched_type
            return fails[:1]
    return []


def replay(path):
    from mv import sim
    f = common.replay_case(path)
    sim.boot(f.get('scheduler', 'default'))
    if 'bundled' in f['case']:
        from mv.props import bundledrun as R
        return R.replay_case(f['case'])
    return check_case(f['case'], None, 3, 200)


def main(tier, seed):
    t0 = time.time()
    opts = {'examples': common.budget(tier, 16, 300),
            'max_tasks': common.budget(tier, 7, 10),
            'n_shuffles': common.budget(tier, 2, 8),
            'dfs_cap': common.budget(tier, 40, 3000),
            'time_budget': common.budget(tier, 60, 1500),
            'shrink_budget': common.budget(tier, 15, 80)}
    results = runner.run_shards('mv.props.c02', 'shard_main', 16, seed, tier,
                                opts)
    stats = runner.Stats.merge([r['stats'] for r in results])
    herrs = [h for r in results for h in r['harness_errors']]
    failures = sorted([f for r in results for f in r['failures']],
                      key=lambda f: len(str(f)))
    hits = [h for r in results for h in r.get('known_hits', [])]
    return runner.finish(
        PROP, tier, seed, 'exploration', t0, stats, failures[:1], herrs, RULE,
        known_hits=hits,
        assumptions=['domain restricted to programs whose reference outcome '
                     'set is a singleton (confluent by the language); the '
                     'others are counted as excluded',
                     'single engine process; SQLite'],
        extra={'exhaustive_note': 'dfs_programs_exhausted counts small '
               'programs whose complete schedule space was enumerated'})
