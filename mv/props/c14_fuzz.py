"""C14, coverage-guided part (atheris / libFuzzer), thorough tier.

The fuzzer's bytes are decoded into *structured* choices: a
FuzzedDataProvider-backed Draw drives the same structure-aware mutator
(mv/gen/langmut.py) that Hypothesis drives, so libFuzzer's coverage feedback
(the parser, the spec classes and the expression validators of the working
tree are instrumented) steers which base document, which mutation operators
and which positions are taken.  The oracle sits inside the target:

* totality at the parser / spec level: only exceptions of the declared
  definition-error family (or any MistralException carrying a 4xx code) may
  escape `get_*_spec_from_yaml`;
* an accepted definition holds no malformed expression in a documented
  expression-bearing mapping (mv/props/c14._malformed_expressions).

Run as a script (atheris.Fuzz() ends the process):
  c14_fuzz.py <artifact dir> -runs=N -seed=S [libFuzzer flags]
A crash leaves `<artifact dir>/crash-*`; `decode(bytes)` rebuilds the text.
mv/props/c14.py confirms every crash through the REST-level check before it
is reported (a parser-level exception that the API maps to 400 is not a
violation of the property).
"""
import os
import sys


KINDS = ('wf', 'wb', 'act')


class FDraw(object):
    """mv.gen.draw.Draw over an atheris FuzzedDataProvider."""

    def __init__(self, fdp):
        self.fdp = fdp

    def int(self, lo, hi):
        if hi <= lo:
            return lo
        return self.fdp.ConsumeIntInRange(lo, hi)

    def bool(self, p=0.5):
        return self.int(0, 99) < int(p * 100)

    def choice(self, seq):
        seq = list(seq)
        return seq[self.int(0, len(seq) - 1)]

    def subset(self, seq, lo=0, hi=None):
        seq = list(seq)
        hi = len(seq) if hi is None else min(hi, len(seq))
        lo = min(lo, hi)
        k = self.int(lo, hi)
        pool = list(seq)
        out = []
        for _ in range(k):
            out.append(pool.pop(self.int(0, len(pool) - 1)))
        return out

    def perm(self, seq):
        return self.subset(seq, len(seq), len(seq))


def decode(data, atheris):
    """bytes -> (kind, text, mutation info)."""
    from mv.gen import langmut
    from mv.props import c14
    fdp = atheris.FuzzedDataProvider(data)
    D = FDraw(fdp)
    kind = D.choice(KINDS)
    bases = c14._bases(kind)
    base = bases[D.int(0, len(bases) - 1)]
    text, info = langmut.gen_doc(D, kind, base, D.int(0, 4), D.bool(0.5))
    return kind, text, info


def judge(kind, text):
    """None when the parser-level oracle holds, else a short description."""
    import yaml
    from mistral import exceptions as exc
    from mistral.lang import parser
    from mv.props import c14
    fn = {'wf': parser.get_workflow_list_spec_from_yaml,
          'wb': parser.get_workbook_spec_from_yaml,
          'act': parser.get_action_list_spec_from_yaml}[kind]
    try:
        fn(text, validate=True)
    except exc.MistralException as e:
        code = getattr(e, 'http_code', 400)
        if 400 <= int(code) < 500:
            return None
        return 'declared exception with code %s: %s' % (code, str(e)[:200])
    except RecursionError:
        # bounded by the interpreter, reported through the REST-level check
        return 'RecursionError'
    except Exception as e:  # noqa
        return '%s: %s' % (type(e).__name__, str(e)[:200])
    try:
        parsed = yaml.safe_load(text)
    except Exception:
        return None
    bad = c14._malformed_expressions(kind, parsed)
    if bad:
        return 'accepted with malformed expression: %s' % (bad[:1],)
    return None


def main(argv):
    art = argv[1]
    os.makedirs(art, exist_ok=True)
    sys.path.insert(0, '/verif/.deps')
    import atheris
    with atheris.instrument_imports(include=['mistral.lang',
                                             'mistral.expressions',
                                             'mistral.utils.safe_yaml']):
        from mistral.lang import parser  # noqa
        from mistral import expressions  # noqa
    from mv import sim
    sim.boot('default')
    stats = {'n': 0}

    def TestOneInput(data):
        stats['n'] += 1
        kind, text, info = decode(data, atheris)
        if len(text) > 6000:
            return
        v = judge(kind, text)
        if v is not None:
            raise RuntimeError('C14-FUZZ %s' % v)

    args = [argv[0], '-artifact_prefix=%s/' % art.rstrip('/'),
            '-max_len=256', '-timeout=25'] + list(argv[2:])
    atheris.Setup(args, TestOneInput)
    atheris.Fuzz()


if __name__ == '__main__':
    main(sys.argv)
