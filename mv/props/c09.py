"""C09 A sub-workflow and its parent task stay consistent.

Generated nesting shapes: a workbook (main -> mid -> leaf) plus standalone
workflows, sub-workflows called by short (workbook-relative) name, full name
or expression, from plain and with-items tasks, depth up to 3, workbook /
workflow names sharing characters and prefixes, optional namespace, root
environment, undeclared extra input keys, sub-workflows started in-process or
through the bus, child outcomes success / error / cancelled by an operator,
completion orders by drawn schedule.
"""
import time

from mv import runner
from mv.props import common

PROP = 'C09'
FINAL = ('SUCCESS', 'ERROR', 'CANCELLED')
RULE = ('case = nesting shape (depth 1..3, call by short/full name or '
        'expression, plain or with-items caller, name family, namespace, '
        'env, extra input keys, via_rpc) x leaf outcomes x optional cancel '
        'of a drawn child at a drawn step x schedule; non-trivial = depth '
        '>= 2 or with-items over sub-workflows, with at least one non-FIFO '
        'choice; distinct = hash(case, choices taken)')

NAME_FAMILIES = [
    {'wb': 'wb', 'main': 'main', 'mid': 'mid', 'leaf': 'leaf'},
    {'wb': 'mina', 'main': 'main', 'mid': 'nami', 'leaf': 'ain'},
    {'wb': 'a', 'main': 'aa', 'mid': 'a', 'leaf': 'aaa'},
    {'wb': 'wb_main', 'main': 'main', 'mid': 'main_mid', 'leaf': 'mid'},
    {'wb': 'leaf', 'main': 'leaf_leaf', 'mid': 'f', 'leaf': 'leaf'},
]


def gen_case(D):
    c = {'names': D.int(0, len(NAME_FAMILIES) - 1),
         'depth': D.int(1, 3),
         'call_main': D.choice(['short', 'full', 'expr']),
         'call_mid': D.choice(['short', 'full', 'expr']),
         'with_items': D.choice([0, 0, 2, 3]),
         'namespace': D.choice(['', '', 'ns1']),
         'env': D.bool(0.6), 'extra': D.bool(0.6),
         'via_rpc': D.bool(0.4),
         'global_shadow': D.bool(0.3),
         'leaf_outcome': D.choice(['ok', 'ok', 'err']),
         'leaf_items_err': D.choice([None, 0, 1]),
         'cancel': None, 'salt': D.int(0, 20)}
    if D.bool(0.2):
        c['cancel'] = {'at': D.int(2, 40), 'sel': D.int(0, 3)}
    if D.bool(0.2):
        # namespace fallback: the root lives in a namespace, intermediate
        # workflows exist only in the default namespace, the leaf in both
        c['fallback'] = True
        c['namespace'] = 'ns1'
        c['cancel'] = None
        c['with_items'] = D.choice([0, 0, 2])
    return c


def render(case):
    import yaml
    nm = NAME_FAMILIES[case['names']]
    wb = nm['wb']
    depth = case['depth']

    def ref(kind, target):
        if kind == 'short':
            return target
        if kind == 'full':
            return '%s.%s' % (wb, target)
        return '<%% $.wfname_%s %%>' % target

    leaf = {'input': ['a'],
            'output': {'out': '<% $.a %>', 'envv': "<% env().get(k, 'noenv') %>"},
            'tasks': {'lt': {'action': "std.echo output=<% env().get(k, 'noenv') %>"}}}
    mid_target = nm['leaf']
    mid_call = {'workflow': ref(case['call_mid'], mid_target),
                'input': {'a': '<% $.a %>'},
                'publish': {'r': '<% task().result %>'},
                'on-success': ['after_mid']}
    if case['extra']:
        mid_call['input']['extra_key'] = 'xv'
    mid = {'input': ['a', {'wfname_%s' % mid_target: '%s.%s' % (wb, mid_target)}],
           'output': {'out': '<% $.r.out %>', 'envv': '<% $.r.envv %>'},
           'tasks': {'mt': mid_call, 'after_mid': {'action': 'std.noop'}}}
    main_target = nm['mid'] if depth >= 2 else nm['leaf']
    main_call = {'workflow': ref(case['call_main'], main_target),
                 'input': {'a': '<% $.a %>'},
                 'publish': {'res': '<% task().result %>'},
                 'on-success': ['after'], 'on-error': ['handler']}
    if case['extra']:
        main_call['input']['extra_key'] = 'xv'
    if case['with_items']:
        main_call['with-items'] = 'a in <% $.items %>'
        main_call['input']['a'] = '<% $.a %>'
    main = {'input': [{'a': 1}, {'items': list(range(case['with_items']))},
                      {'wfname_%s' % main_target: '%s.%s' % (wb, main_target)}],
            'tasks': {'call': main_call, 'after': {'action': 'std.noop'},
                      'handler': {'action': 'std.noop'}}}
    wfs = {nm['main']: main, nm['leaf']: leaf}
    if depth >= 2:
        wfs[nm['mid']] = mid
    if depth >= 3:
        # one more level between mid and leaf
        deep = {'input': ['a'],
                'output': {'out': '<% $.r2.out %>',
                           'envv': '<% $.r2.envv %>'},
                'tasks': {'dt': {
                    'workflow': nm['leaf'], 'input': {'a': '<% $.a %>'},
                    'publish': {'r2': '<% task().result %>'}}}}
        wfs['deep'] = deep
        mid['tasks']['mt']['workflow'] = 'deep' if case['call_mid'] != 'full' \
            else '%s.deep' % wb
        if case['call_mid'] == 'expr':
            mid['input'][1] = {'wfname_%s' % mid_target: '%s.deep' % wb}
    doc = {'version': '2.0', 'name': wb, 'workflows': wfs}
    text = yaml.safe_dump(doc, default_flow_style=False, sort_keys=False)
    shadow = None
    if case['global_shadow']:
        # a standalone workflow with the same short name as a workbook member
        # that must NOT be picked for a short-name call inside the workbook
        sname = main_target
        sdoc = {'version': '2.0', sname: {
            'input': ['a'], 'output': {'out': 'SHADOW', 'envv': 'SHADOW'},
            'tasks': {'x': {'action': 'std.noop'}}}}
        shadow = yaml.safe_dump(sdoc, default_flow_style=False,
                                sort_keys=False)
    return text, shadow, '%s.%s' % (wb, nm['main'])


FALLBACK_DEFAULT = """
version: '2.0'
mid_g:
  input: [a]
  output: {out: <% $.r.out %>, envv: <% $.r.envv %>}
  tasks:
    mt:
      workflow: leaf_g
      input: {a: <% $.a %>}
      publish: {r: <% task().result %>}
leaf_g:
  input: [a]
  output: {out: from_default, envv: from_default}
  tasks:
    lt:
      action: std.noop
"""
FALLBACK_NS = """
version: '2.0'
main_g:
  input: [{a: 1}, {items: %s}]
  tasks:
    call:
      workflow: mid_g
      input: {a: <%% $.a %%>}%s
      publish: {res: <%% task().result %%>}
      on-success: [after]
      on-error: [handler]
    after:
      action: std.noop
    handler:
      action: std.noop
leaf_g:
  input: [a]
  output: {out: from_ns, envv: from_ns}
  tasks:
    lt:
      action: std.noop
"""


def check_case(case, stats=None):
    from mv import sim, enginerun
    from mistral.services import workbooks as wb_service
    if case.get('fallback'):
        wi = case['with_items']
        text = FALLBACK_NS % (list(range(wi)),
                              '\n      with-items: a in <% $.items %>'
                              if wi else '')
        shadow, start_name = FALLBACK_DEFAULT, 'main_g'
    else:
        text, shadow, start_name = render(case)
    sim.reset(salt=case.get('salt', 0))
    sim.CONF.set_override('start_subworkflows_via_rpc', bool(case['via_rpc']),
                          group='engine')
    try:
        return _run(case, stats, text, shadow, start_name)
    finally:
        sim.CONF.clear_override('start_subworkflows_via_rpc', group='engine')


def _run(case, stats, text, shadow, start_name):
    from mv import sim, enginerun
    from mistral.services import workbooks as wb_service
    items_err = case['leaf_items_err']
    seen_lt = {'n': 0}

    def outcome(tname, idx, attempt, info):
        if tname == 'lt':
            k = seen_lt['n']
            seen_lt['n'] += 1
            if case['leaf_outcome'] == 'err' and (
                    not case['with_items'] or items_err is None
                    or k == items_err):
                return ('err', 'leaf-failed')
            return ('real', None)
        return ('ok', 'a')

    sim.W.outcome = outcome
    ns = case['namespace']
    if case.get('fallback'):
        sim.create_workflows(text, namespace=ns)
        sim.create_workflows(shadow, namespace='')
    else:
        wb_service.create_workbook_v2(text, namespace=ns)
        if shadow:
            sim.create_workflows(shadow, namespace=ns)
    params = {}
    if case['env']:
        params['env'] = {'k': 'envval'}
    cl = sim.rpc_clients.get_engine_client()
    kind, val = sim.call(cl.start_workflow, start_name, wf_namespace=ns,
                         wf_input={}, **params)
    if kind != 'ok':
        return [{'kind': 'start-failed', 'detail': str(val)[:300],
                 'yaml': text.splitlines()}]
    root_id = val.id
    sched = enginerun.Schedule(case.get('sched'))
    cancel = case.get('cancel')
    fired = 0
    cancelled_id = None
    while fired < 900:
        en = sim.enabled()
        if cancel and cancelled_id is None and (fired >= cancel['at']
                                                or not en):
            snap = sim.snapshot()
            kids = sorted((w for w in snap['wf'].values()
                           if w['task_execution_id']
                           and w['state'] == 'RUNNING'),
                          key=lambda w: (w['created_at'], w['id']))
            if kids:
                k = kids[cancel['sel'] % len(kids)]
                cancelled_id = k['id']
                sim.call(cl.stop_workflow, k['id'], 'CANCELLED', 'op-cancel')
                en = sim.enabled()
            else:
                cancelled_id = 'none'
        if not en:
            break
        sim.fire(en[sched.choose(en)])
        fired += 1
    snap = sim.snapshot()
    viol = []
    root = snap['wf'][root_id]
    if root['state'] not in FINAL:
        viol.append({'kind': 'root-not-final', 'detail': {
            'state': root['state'],
            'wfs': [(w['name'], w['state']) for w in snap['wf'].values()]}})
    # parent task / child pairs
    by_task = {}
    for w in snap['wf'].values():
        if w['task_execution_id']:
            by_task.setdefault(w['task_execution_id'], []).append(w)
    for tid, kids in by_task.items():
        t = snap['task'].get(tid)
        if t is None:
            viol.append({'kind': 'child-of-missing-task', 'detail': {}})
            continue
        wi = t.get('spec_with_items')
        for k in kids:
            if k['root_execution_id'] != root_id:
                viol.append({'kind': 'wrong-root-execution-id',
                             'detail': {'wf': k['name'],
                                        'root': k['root_execution_id']}})
            if (k['params'] or {}).get('namespace') != \
                    (root['params'] or {}).get('namespace'):
                viol.append({'kind': 'namespace-not-propagated',
                             'detail': {'wf': k['name'],
                                        'ns': (k['params'] or {}).get(
                                            'namespace')}})
            if case['extra'] and not case.get('fallback') and \
                    'extra_key' not in (k['params'] or {}) \
                    and k['name'].split('.')[-1] != 'deep_none':
                # only calls that pass the extra key
                if t['name'] in ('call', 'mt'):
                    viol.append({'kind': 'undeclared-input-dropped',
                                 'detail': {'wf': k['name'],
                                            'params': sorted(
                                                k['params'] or {})}})
            if k['name'].endswith('SHADOW'):
                pass
        if not wi and len(kids) == 1 and root['state'] in FINAL:
            k = kids[0]
            if k['state'] in FINAL and t['state'] != k['state']:
                viol.append({'kind': 'task-state-differs-from-child',
                             'detail': {'task': t['name'],
                                        'task_state': t['state'],
                                        'child': k['name'],
                                        'child_state': k['state']}})
            if k['state'] == 'SUCCESS' and t['state'] == 'SUCCESS':
                pub = t['published'] or {}
                res = pub.get('res', pub.get('r', pub.get('r2')))
                if res is not None and res != k['output']:
                    viol.append({'kind': 'task-result-differs-from-output',
                                 'detail': {'task': t['name'], 'result': res,
                                            'output': k['output']}})
        if wi and root['state'] in FINAL and t['state'] in FINAL:
            acc = [k for k in kids if k['accepted']]
            st = 'CANCELLED' if any(k['state'] == 'CANCELLED' for k in acc) \
                else ('ERROR' if any(k['state'] == 'ERROR' for k in acc)
                      else 'SUCCESS')
            if t['state'] != st:
                viol.append({'kind': 'with-items-task-state-differs',
                             'detail': {'task_state': t['state'],
                                        'children': [k['state']
                                                     for k in kids]}})
    if case.get('fallback') and root['state'] == 'SUCCESS':
        # the leaf must be the caller-namespace definition
        for w in snap['wf'].values():
            if w['name'] == 'leaf_g' and w['state'] == 'SUCCESS' and \
                    (w['output'] or {}).get('out') != 'from_ns':
                viol.append({'kind': 'namespace-fallback-lost-caller-'
                             'namespace', 'detail': {'output': w['output']}})
    # the shadow workflow must not have been used for short-name calls
    for w in snap['wf'].values():
        if (w['output'] or {}).get('out') == 'SHADOW':
            callee_kind = case['call_main']
            if callee_kind == 'short':
                viol.append({'kind': 'global-workflow-shadowed-workbook-one',
                             'detail': {'wf': w['name']}})
    # environment of the root visible in every leaf
    if case['env'] and not case.get('fallback'):
        for aid, info in sim.W.actions.items():
            if info.get('task') == 'lt' and \
                    (info.get('input') or {}).get('output') != 'envval':
                viol.append({'kind': 'root-environment-not-visible-in-child',
                             'detail': {'input': info.get('input')}})
    # the parent continues exactly once per child completion
    for nm in ('after', 'handler', 'after_mid'):
        per_wf = {}
        for t in snap['task'].values():
            if t['name'] == nm:
                per_wf[t['wf_ex_id']] = per_wf.get(t['wf_ex_id'], 0) + 1
        for wid, n in per_wf.items():
            if n > 1:
                viol.append({'kind': 'parent-continued-more-than-once',
                             'detail': {'task': nm, 'n': n}})
    reports = {}
    for kind_, method, kw in sim.W.rpc_log:
        if method == 'on_action_complete' and kw.get('wf_action') is True:
            reports[kw.get('action_ex_id')] = \
                reports.get(kw.get('action_ex_id'), 0) + 1
    for wid, w in snap['wf'].items():
        if w['task_execution_id'] and w['state'] in FINAL and \
                root['state'] in FINAL and reports.get(wid, 0) != 1:
            viol.append({'kind': 'child-completion-reported-%d-times' %
                         reports.get(wid, 0),
                         'detail': {'wf': w['name'], 'state': w['state']}})
    if root['state'] in FINAL:
        call = [t for t in snap['task'].values()
                if t['name'] == 'call' and t['wf_ex_id'] == root_id]
        if call and call[0]['state'] == 'SUCCESS':
            if not any(t['name'] == 'after' and t['wf_ex_id'] == root_id
                       for t in snap['task'].values()):
                viol.append({'kind': 'parent-did-not-continue',
                             'detail': {}})
        if call and call[0]['state'] == 'ERROR':
            if not any(t['name'] == 'handler' and t['wf_ex_id'] == root_id
                       for t in snap['task'].values()):
                viol.append({'kind': 'parent-error-route-not-taken',
                             'detail': {}})

    class R(object):
        errors = sim.W.errors
        swallowed = sim.W.swallowed
        server_errors = sim.W.server_errors
    for e in common.undeclared_errors(R(), server=True):
        viol.append({'kind': 'undeclared-error',
                     'detail': {k: e.get(k) for k in
                                ('type', 'msg', 'frame', 'where', 'label')}})
    if stats is not None:
        tg = ['depth_%d' % case['depth'], 'call_' + case['call_main'],
              'names_%d' % case['names'],
              'via_rpc' if case['via_rpc'] else 'in_process']
        if case['with_items']:
            tg.append('with_items_caller')
        if case['namespace']:
            tg.append('namespaced')
        if cancelled_id not in (None, 'none'):
            tg.append('operator_cancel')
        if case['global_shadow']:
            tg.append('global_shadow')
        if case.get('fallback'):
            tg.append('namespace_fallback')
        nontriv = (case['depth'] >= 2 or bool(case['with_items'])) and \
            sched.nonfifo >= 1
        stats.case(runner.fp([case, sched.taken]), nontriv, tg,
                   {'case': {k: v for k, v in case.items() if k != 'sched'},
                    'yaml': text.splitlines(),
                    'wfs': [(w['name'], w['state'])
                            for w in snap['wf'].values()]})
    seen = set()
    out = []
    for v in viol:
        if v['kind'] in seen:
            continue
        seen.add(v['kind'])
        v['yaml'] = text.splitlines()
        v['sched_taken'] = sched.taken
        out.append(v)
    return out


def shard_main(shard, nshards, seed, tier, opts):
    from mv import sim, enginerun
    from hypothesis import strategies as st_
    from mv.gen.draw import HDraw
    st = runner.Stats()
    sched_type = common.shard_scheduler(shard)
    sim.boot(sched_type)

    @st_.composite
    def strat(draw):
        D = HDraw(draw)
        c = gen_case(D)
        c['sched'] = enginerun.gen_schedule(D, max_devs=8, horizon=80)
        return c

    fail = runner.drive(strat(), lambda c: check_case(c, st),
                        opts.get('examples', 50), seed * 1000 + shard,
                        time_budget=opts.get('time_budget'),
                        shrink_budget=opts.get('shrink_budget', 40), stats=st)
    if fail:
        fail['scheduler'] = sched_type
    return {'stats': st.to_dict(), 'failures': [fail] if fail else []}


def replay(path):
    from mv import sim
    f = common.replay_case(path)
    sim.boot(f.get('scheduler', 'default'))
    c = f['case']
    tk = f['violations'][0].get('sched_taken')
    if tk:
        c['sched'] = {'recorded': tk}
    return check_case(c)


def main(tier, seed):
    t0 = time.time()
    opts = {'examples': common.budget(tier, 55, 1500),
            'time_budget': common.budget(tier, 80, 1500),
            'shrink_budget': common.budget(tier, 30, 150)}
    results = runner.run_shards('mv.props.c09', 'shard_main', 16, seed, tier,
                                opts)
    stats = runner.Stats.merge([r['stats'] for r in results])
    herrs = [h for r in results for h in r['harness_errors']]
    failures = sorted([f for r in results for f in r['failures']],
                      key=lambda f: len(str(f)))
    return runner.finish(
        PROP, tier, seed, 'exploration', t0, stats, failures[:1], herrs, RULE,
        assumptions=['single engine process; with via_rpc the start request '
                     'travels over the harness bus as an asynchronous '
                     'message'])
