"""C04 No task starts before its prerequisites; a join runs exactly once.

Trace oracle over generated fork/join shapes and requires-graphs: the world
is snapshotted after every event; for every join the event in which it
becomes RUNNING (or gets an action execution) must come after the required
number of inbound instances completed *and routed to it* — routing recomputed
from the definition with the reference guard evaluator, not read from the
row —, it becomes RUNNING at most once, has at most one action execution and
one task execution; a join that cannot reach its number ends in ERROR.
Reverse: a task starts only after all its requires are SUCCESS, only tasks of
the target's closure start, each once.
"""
import time

from mv import runner
from mv.props import common

PROP = 'C04'
RULE = ('case = (fork/join or requires program, outcomes, schedule); the '
        'world is observed after every event. Non-trivial = (>=2 inbound '
        'branches of some join completed in an order different from their '
        'creation order) or (a join with an inbound route that does not fire '
        'or an unreachable inbound task) or (a reverse task with >=2 '
        'requires finishing in non-creation order); distinct = hash(program, '
        'outcomes, input, choices taken)')

DONE = ('SUCCESS', 'ERROR', 'CANCELLED')


def _routes(prog, name, state, result, data):
    """Targets a finished instance routes to, per the definition."""
    from mv.gen.workflows import clause_of, eval_guard
    out = []
    clauses = []
    if state == 'ERROR':
        clauses.append('on-error')
    if state == 'SUCCESS':
        clauses.append('on-success')
    if state in ('SUCCESS', 'ERROR'):
        clauses.append('on-complete')
    for c in clauses:
        for e in clause_of(prog, name, c):
            if eval_guard(e.get('guard'), data, result):
                out.append(e['to'])
    return out


def check_case(case, stats=None):
    from mv import enginerun
    from mv.gen import workflows as G
    from mv.ref import wfsem
    prog = case['prog']
    model = wfsem.model_for(prog, case.get('input'), case['outcomes'])
    try:
        model.outcomes_set()
    except wfsem.TooBig:
        if stats:
            stats.counters['excluded_model_too_big'] += 1
        return []
    if model.retrigger_possible:
        if stats:
            stats.counters['excluded_known_shape_join_retrigger'] += 1
        return []
    if case.get('salt', 0) % 3 == 0 and not case.get('no_warm'):
        # one case in three: an earlier execution of the same definition has
        # already run to its end in the same database (same task names, all
        # finished): prerequisites are per execution
        case = dict(case)
        case['warm'] = {'input': case.get('input')}
        if stats is not None:
            stats.tags['after_earlier_execution_of_same_definition'] += 1
    if case.get('salt', 0) % 4 == 1:
        # one case in four: scheduler jobs delete their row in a later
        # event than the one that invoked them (two transactions in the
        # real scheduler): join refresh jobs are seen captured by others
        case = dict(case, split_jobs=True)
        if stats is not None:
            stats.tags['job_rows_deleted_in_a_later_event'] += 1
    res = enginerun.run_case(case, observe_each=True)
    if res.start_error is not None or not res.quiescent:
        if stats:
            stats.counters['skipped_run_not_quiescent'] += 1
        return []
    if case.get('auto_resume'):
        # known finding join-retrigger, resume variant: the route of a task
        # that completed in front of a `pause` command is counted by the
        # join at once (it is recorded in next_tasks) and dispatched again
        # from the backlog on resume, after the join ran: Task.defer puts
        # the join back to WAITING.  Classified by the compare-and-swap log
        # of this run, counted, not judged.
        from mv.props.c10 import _retriggered
        if _retriggered(res.snap):
            if stats:
                stats.counters['known_shape_join_retrigger_seen'] += 1
            return []
    tg = G.tags(prog, case['outcomes'])
    viol = []
    nontriv = False
    data = dict(prog.get('input') or {})
    data.update(case.get('input') or {})
    wid = res.wf_ex_id
    snaps = res.snaps + [(10 ** 9, res.snap)]

    # timelines
    first_seen = {}     # task id -> step created
    first_running = {}  # task id -> step first RUNNING / action seen
    running_entries = {}  # task id -> number of entries into RUNNING
    done_at = {}        # task id -> step completed
    last_state = {}
    for step, snap in snaps:
        acts_by_task = {}
        for a in snap['action'].values():
            acts_by_task.setdefault(a['task_execution_id'], []).append(a)
        for tid, t in snap['task'].items():
            if t['wf_ex_id'] != wid:
                continue
            if tid not in first_seen:
                first_seen[tid] = step
            started = t['state'] in ('RUNNING', 'DELAYED') or \
                bool(acts_by_task.get(tid)) or t['state'] in DONE and \
                bool(acts_by_task.get(tid))
            if started and tid not in first_running:
                first_running[tid] = step
            prev = last_state.get(tid)
            if t['state'] == 'RUNNING' and prev != 'RUNNING':
                running_entries[tid] = running_entries.get(tid, 0) + 1
            if t['state'] in DONE and tid not in done_at:
                done_at[tid] = step
            last_state[tid] = t['state']
    final = res.snap
    tasks = [t for t in final['task'].values() if t['wf_ex_id'] == wid]
    by_name = {}
    for t in tasks:
        by_name.setdefault(t['name'], []).append(t)
    acts_final = {}
    for a in final['action'].values():
        acts_final.setdefault(a['task_execution_id'], []).append(a)
    # CAS log: entries into RUNNING per task id (also those overwritten
    # inside one event)
    cas_running = {}
    for c in res.cas:
        if c['fn'] == 'update_task_execution_state' and c['matched'] \
                and c['to'] == 'RUNNING':
            cas_running[c['id']] = cas_running.get(c['id'], 0) + 1

    if prog['type'] == 'direct':
        om = enginerun.OutcomeMap(case['outcomes'])
        for jname, jt in prog['tasks'].items():
            if jt.get('join') is None:
                continue
            insts = by_name.get(jname, [])
            if len(insts) > 1:
                viol.append({'kind': 'join-has-several-task-executions',
                             'detail': {'join': jname, 'n': len(insts)}})
            ins = G.inbound(prog, jname)
            for j in insts:
                jid = j['id']
                n_act = len(acts_final.get(jid, []))
                if n_act > 1:
                    viol.append({'kind': 'join-action-executed-twice',
                                 'detail': {'join': jname, 'actions': n_act}})
                if max(running_entries.get(jid, 0),
                       cas_running.get(jid, 0)) > 1:
                    viol.append({'kind': 'join-started-more-than-once',
                                 'detail': {'join': jname, 'entries':
                                            running_entries.get(jid, 0),
                                            'cas': cas_running.get(jid, 0)}})
                # arrivals recomputed from the definition
                arrived_steps = []
                lost = 0
                order_created = []
                for src in ins:
                    sts = by_name.get(src, [])
                    if not sts:
                        lost += 1
                        continue
                    s = sts[-1]
                    if s['state'] not in DONE:
                        continue
                    oc = case['outcomes'].get(src, [['ok', 'a']])[0]
                    result = oc[1] if oc[0] == 'ok' else None
                    if prog['tasks'][src].get('join') is not None \
                            and s['state'] == 'ERROR' and \
                            not acts_final.get(s['id']):
                        result = None   # failed join: no action ran
                    try:
                        rt = _routes(prog, src, s['state'], result, data)
                    except G.ExprFailure:
                        # a guard of that task fails when evaluated: the
                        # engine fails the task and the workflow by force
                        # (C01's clause); routing is undefined, the case is
                        # not judged here
                        if stats:
                            stats.counters['skipped_failing_guard'] += 1
                        return []
                    if jname in rt:
                        arrived_steps.append((done_at.get(s['id'], 10 ** 9),
                                              first_seen.get(s['id'], 0)))
                    else:
                        lost += 1
                need = len(ins) if jt['join'] == 'all' else \
                    (1 if jt['join'] == 'one' else int(jt['join']))
                if lost:
                    nontriv = True
                if len(arrived_steps) >= 2:
                    by_done = [c for _, c in sorted(arrived_steps)]
                    if by_done != sorted(by_done):
                        nontriv = True
                if jid in first_running:
                    start = first_running[jid]
                    n_before = sum(1 for d, _ in arrived_steps if d < start
                                   or d == start)
                    # completion and join start never share an event: the
                    # start is a separate refresh job
                    n_strict = sum(1 for d, _ in arrived_steps if d < start)
                    if n_strict < need:
                        viol.append({
                            'kind': 'join-started-before-prerequisites',
                            'detail': {'join': jname, 'type': jt['join'],
                                       'needed': need,
                                       'arrived_before_start': n_strict,
                                       'start_step': start,
                                       'arrivals': sorted(arrived_steps)}})
                else:
                    # never started: must not be able to reach its number
                    root_state = final['wf'][wid]['state']
                    if len(arrived_steps) >= need and root_state == 'RUNNING':
                        viol.append({'kind': 'join-never-started',
                                     'detail': {'join': jname}})
                if j['state'] == 'WAITING' and \
                        final['wf'][wid]['state'] == 'RUNNING':
                    viol.append({'kind': 'join-waiting-forever',
                                 'detail': {'join': jname}})
        # non-join tasks: created only by a finished parent that routes here
        for t in tasks:
            if prog['tasks'][t['name']].get('join') is not None:
                continue
            trig = (t['runtime_context'] or {}).get('triggered_by') or []
            for tr in trig:
                pid = tr.get('task_id')
                if pid in done_at and first_seen[t['id']] < done_at[pid]:
                    viol.append({'kind': 'task-created-before-parent-finished',
                                 'detail': {'task': t['name']}})
    else:
        m = wfsem.ReverseModel(prog, case.get('input'), case['outcomes'])
        clo = m.closure()
        for name, insts in by_name.items():
            if name not in clo:
                viol.append({'kind': 'task-outside-target-closure-ran',
                             'detail': {'task': name}})
            if len(insts) > 1:
                viol.append({'kind': 'reverse-task-ran-twice',
                             'detail': {'task': name, 'n': len(insts)}})
            for t in insts:
                reqs = m.requires(name)
                dsteps = []
                for r in reqs:
                    rs = by_name.get(r, [])
                    ok = [x for x in rs if x['state'] == 'SUCCESS']
                    if not ok:
                        viol.append({
                            'kind': 'task-started-without-required-success',
                            'detail': {'task': name, 'requires': r}})
                        continue
                    d = done_at.get(ok[0]['id'], 10 ** 9)
                    dsteps.append((d, first_seen.get(ok[0]['id'], 0)))
                    if first_seen[t['id']] < d:
                        viol.append({
                            'kind': 'task-started-before-requirement',
                            'detail': {'task': name, 'requires': r,
                                       'created': first_seen[t['id']],
                                       'required_done': d}})
                if len(dsteps) >= 2:
                    by_done = [c for _, c in sorted(dsteps)]
                    if by_done != sorted(by_done):
                        nontriv = True
                if len(acts_final.get(t['id'], [])) > 1:
                    viol.append({'kind': 'reverse-task-action-twice',
                                 'detail': {'task': name}})
        if len(clo) < len(prog['order']):
            nontriv = nontriv or res.nonfifo > 0
    if stats is not None:
        stats.case(runner.fp([prog, case['outcomes'], case.get('input'),
                              res.sched_taken]), nontriv, tg,
                   common.sample_of(case, res))
    for v in viol:
        v['yaml'] = G.render(prog).splitlines()
        v['sched_taken'] = res.sched_taken
    return viol


def shard_main(shard, nshards, seed, tier, opts):
    from mv import sim
    from mv.gen import workflows as G
    st = runner.Stats()
    sched_type = common.shard_scheduler(shard)
    sim.boot(sched_type)
    F = G.feats(commands=False, publish=False, defaults=False)
    if shard % 4 == 3:
        # a quarter of the shards: definitions that pause themselves (the
        # `pause` command in transition lists, possibly in front of a join);
        # the harness resumes whenever nothing else is pending
        F = G.feats(commands=True, state_commands=False, pause_cmd=True,
                    publish=False, defaults=False)
    strat = common.engine_case_strategy(max_tasks=opts.get('max_tasks', 8),
                                        feats=F, reverse_p=0.25,
                                        max_devs=opts.get('max_devs', 8))
    if shard % 4 == 3:
        strat = strat.map(lambda c: dict(c, auto_resume=True))
    fail = runner.drive(strat, lambda c: check_case(c, st),
                        opts.get('examples', 40), seed * 1000 + shard,
                        time_budget=opts.get('time_budget'),
                        shrink_budget=opts.get('shrink_budget', 40), stats=st)
    if fail:
        fail['scheduler'] = sched_type
    out = {'stats': st.to_dict(), 'failures': [fail] if fail else []}
    if shard == 0:
        from mv.props import known
        out['known_hits'] = known.run_known(PROP)
    return out


def replay(path):
    from mv import sim
    f = common.replay_case(path)
    sim.boot(f.get('scheduler', 'default'))
    case = f['case']
    tk = f['violations'][0].get('sched_taken')
    if tk:
        case['sched'] = {'recorded': tk}
    return check_case(case)


def main(tier, seed):
    t0 = time.time()
    opts = {'examples': common.budget(tier, 70, 1500),
            'max_tasks': common.budget(tier, 8, 12),
            'max_devs': common.budget(tier, 8, 14),
            'time_budget': common.budget(tier, 80, 1500),
            'shrink_budget': common.budget(tier, 30, 150)}
    results = runner.run_shards('mv.props.c04', 'shard_main', 16, seed, tier,
                                opts)
    stats = runner.Stats.merge([r['stats'] for r in results])
    herrs = [h for r in results for h in r['harness_errors']]
    failures = sorted([f for r in results for f in r['failures']],
                      key=lambda f: len(str(f)))
    hits = [h for r in results for h in r.get('known_hits', [])]
    return runner.finish(
        PROP, tier, seed, 'exploration', t0, stats, failures[:1], herrs, RULE,
        known_hits=hits,
        assumptions=['observation granularity = one engine event '
                     '(transaction / job / message)',
                     'programs containing the known join-retrigger shape are '
                     'excluded from the main search and re-created by a '
                     'dedicated sub-check'])
