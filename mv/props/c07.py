"""C07 with-items runs each item once, within the concurrency limit, results
in item order.

Generated cases: item count n (0..8), one or two zipped lists, concurrency
absent / 1..n+1 / given as an expression, items as actions or sub-workflows,
per-item outcomes (ok / error / cancel), drawn completion orders (schedule),
then - when the task ended in ERROR - a rerun with reset on or off with new
per-item outcomes.  The world is observed after every event.
"""
import time

from mv import runner
from mv.props import common

PROP = 'C07'
FINAL = ('SUCCESS', 'ERROR', 'CANCELLED')
RULE = ('case = (n items 0..8, 1-2 zipped lists, concurrency none|1..n+1|'
        'expression, action or sub-workflow items, per-item outcome, drawn '
        'schedule, optional retry policy with items failing their first k attempts, optional rerun reset on/off - both also with a concurrency limit); non-trivial = n >= 2 with '
        'completion order != index order, or concurrency < n, or a rerun; '
        'distinct = hash(case, choices taken)')


def gen_case(D, max_n=8):
    n = D.int(0, max_n)
    if max_n < 13 and D.bool(0.1):
        # item counts with two-digit indexes also in the quick tier
        n = D.int(10, 13)
    conc = None
    r = D.int(0, 3)
    if r == 1:
        conc = ('lit', D.int(1, n + 1))
    elif r == 2:
        conc = ('expr', D.int(1, n + 1))
    items = {}
    for i in range(n):
        k = D.int(0, 11)
        if k == 0:
            items[str(i)] = ['err', 'item-%d' % i]
        elif k == 1 and D.bool(0.3):
            items[str(i)] = ['cancel', 'cancelled-%d' % i]
    sub = D.bool(0.25)
    if sub:
        items = {k: v for k, v in items.items() if v[0] == 'err'}
    retry = None
    if not sub and D.bool(0.3):
        # retry policy on the with-items task: an item may fail its first
        # k attempts ('errn'); no cancelled items in these cases
        retry = D.int(1, 2)
        items = {}
        for i in range(n):
            if D.bool(0.3):
                items[str(i)] = ['errn', D.int(1, 3), 'item-%d' % i]
    timeout = None
    never = []
    if retry and n >= 1 and D.bool(0.3):
        # the attempt times out while some items never answer; the retry
        # policy starts the next attempt with those executions still open
        timeout = D.int(1, 3)
        never = sorted(set(D.int(0, n - 1) for _ in range(D.int(1, 3))))
        items = {k: v for k, v in items.items() if int(k) not in never}
    case = {'n': n, 'conc': conc, 'zipped': D.bool(0.3), 'sub': sub,
            'timeout': timeout, 'never': never,
            'items': items, 'retry': retry,
            'rerun': D.choice([None, None, 'reset', 'noreset']),
            'rerun_items': {},
            'sched': None, 'sched2': None, 'salt': D.int(0, 20)}
    if retry:
        case['rerun'] = None
        if n >= 1 and not timeout and D.bool(0.3):
            # the retries are used up by an item that always fails; the task
            # is then rerun (reset on or off) and the retry policy must
            # apply to the new run again: the item fails once more and
            # succeeds on the retry
            bad = D.int(0, n - 1)
            case['items'] = {str(bad): ['errn', retry + 1,
                                        'always-%d' % bad]}
            case['rerun'] = D.choice(['reset', 'noreset'])
            case['retry_rerun'] = bad
    if sub and items and D.bool(0.5):
        # rerun the failed task *inside* each failed child sub-workflow
        # instead of the with-items task itself
        case['rerun'] = 'inner'
    if case['rerun']:
        for i in range(n):
            if D.bool(0.15):
                case['rerun_items'][str(i)] = ['err', 'again-%d' % i]
    return case


def render(case):
    n = case['n']
    xs = list(range(n))
    ys = ['y%d' % i for i in range(n)]
    lines = ["version: '2.0'", "wf:", "  input:", "    - xs", "    - ys",
             "    - c: 1", "    - bad: []", "  tasks:", "    w:"]
    if case['zipped']:
        lines += ["      with-items:", "        - i in <% $.xs %>",
                  "        - j in <% $.ys %>"]
    else:
        lines += ["      with-items: i in <% $.xs %>"]
    if case['conc']:
        if case['conc'][0] == 'lit':
            lines.append("      concurrency: %d" % case['conc'][1])
        else:
            lines.append("      concurrency: <% $.c %>")
    if case['sub']:
        lines.append("      workflow: sub v=<% $.i %> bad=<% $.bad %>")
    elif case['zipped']:
        lines.append("      action: std.echo output=<% [$.i, $.j] %>")
    else:
        lines.append("      action: std.echo output=<% $.i %>")
    if case.get('retry'):
        lines += ["      retry:", "        count: %d" % case['retry'],
                  "        delay: 0"]
    if case.get('timeout'):
        lines += ["      timeout: %d" % case['timeout']]
    lines += ["      publish:", "        res: <% task().result %>",
              "      on-success: after", "    after:",
              "      action: std.noop"]
    if case['sub']:
        lines += ["sub:", "  input:", "    - v", "    - bad", "  output:",
                  "    o: <% $.v %>", "  tasks:", "    s:",
                  "      action: std.echo output=<% $.v %>",
                  "      on-success:", "        - f: <% $.v in $.bad %>",
                  "    f:", "      action: std.fail"]
    inp = {'xs': xs, 'ys': ys}
    if case['conc'] and case['conc'][0] == 'expr':
        inp['c'] = case['conc'][1]
    if case['sub']:
        inp['bad'] = [int(k) for k, v in case['items'].items()
                      if v[0] == 'err']
    return '\n'.join(lines) + '\n', inp


def expected_value(case, i):
    if case['sub']:
        return {'o': i}
    if case['zipped']:
        return [i, 'y%d' % i]
    return 'v%d' % i


def check_case(case, stats=None):
    from mv import sim, enginerun
    n = case['n']
    text, inp = render(case)
    sim.reset(salt=case.get('salt', 0))
    items = dict(case['items'])

    def outcome(tname, idx, attempt, info):
        if tname == 'w':
            if idx in (case.get('never') or []):
                return ('never', None)
            oc = items.get(str(idx))
            if oc and oc[0] == 'errn':
                if attempt < oc[1]:
                    return ('err', oc[2])
                return ('ok', expected_value(case, idx))
            if oc:
                return (oc[0], oc[1])
            return ('ok', expected_value(case, idx))
        if tname == 'f' and fixed.get('f'):
            return ('ok', 'fixed')
        if tname in ('s', 'f'):
            return ('real', None)
        return ('ok', 'a')

    fixed = {}
    sim.W.outcome = outcome
    sim.create_workflows(text)
    kind, val = sim.start_workflow('wf', inp)
    if kind != 'ok':
        return [{'kind': 'start-failed', 'detail': str(val)[:300]}]
    wid = val.id
    sched = enginerun.Schedule(case.get('sched'))
    viol = []
    limit = None
    if case['conc']:
        limit = case['conc'][1]
    state = {'done_step': None, 'max_running': 0, 'task_id': None}
    order = []

    def observe(rec):
        snap = sim.snapshot()
        ts = [t for t in snap['task'].values()
              if t['name'] == 'w' and t['wf_ex_id'] == wid]
        if not ts:
            return
        t = ts[0]
        state['task_id'] = t['id']
        if case['sub']:
            kids = [w for w in snap['wf'].values()
                    if w['task_execution_id'] == t['id']]
        else:
            kids = [a for a in snap['action'].values()
                    if a['task_execution_id'] == t['id']]
        running = [k for k in kids if k['state'] in ('RUNNING', 'IDLE',
                                                     'PAUSED')]
        state['max_running'] = max(state['max_running'], len(running))
        if limit is not None and len(running) > limit:
            viol.append({'kind': 'more-items-running-than-concurrency',
                         'detail': {'running': len(running), 'limit': limit,
                                    'step': rec['step']}})
        for k in kids:
            if k['state'] in FINAL and k['id'] not in order:
                order.append(k['id'])
        if t['state'] in FINAL and state['done_step'] is None and \
                not case.get('retry'):
            state['done_step'] = rec['step']
            unfinished = [k for k in kids if k['state'] not in FINAL]
            cancelled = [k for k in kids if k['state'] == 'CANCELLED']
            done_idx = {_index(case, k) for k in kids
                        if k['state'] in FINAL}
            if unfinished and not cancelled:
                viol.append({'kind': 'task-completed-before-all-items',
                             'detail': {'unfinished': len(unfinished),
                                        'state': t['state']}})
            if len(done_idx) < n and not cancelled:
                viol.append({'kind': 'task-completed-with-missing-items',
                             'detail': {'have': sorted(done_idx), 'n': n,
                                        'state': t['state']}})

    q, steps = enginerun.run_until_quiet(sched, 120 * (n + 2) + 300,
                                         observe=observe)
    snap = sim.snapshot()
    viol.extend(_final_checks(case, snap, wid, items, phase=1))
    # completion order vs index order
    kid_index = {}
    t_rows = [t for t in snap['task'].values()
              if t['name'] == 'w' and t['wf_ex_id'] == wid]
    reordered = False
    if t_rows:
        kids = _kids(case, snap, t_rows[0]['id'])
        idx_of = {k['id']: _index(case, k) for k in kids}
        seq = [idx_of[i] for i in order if i in idx_of]
        reordered = seq != sorted(seq)
    did_rerun = False
    if case.get('rerun') == 'inner' and t_rows and \
            t_rows[0]['state'] == 'ERROR' and not viol:
        did_rerun = True
        fixed['f'] = True
        cl = sim.rpc_clients.get_engine_client()
        failed_kids = sorted(
            (k for k in _kids(case, snap, t_rows[0]['id'])
             if k['state'] == 'ERROR' and k.get('accepted')),
            key=lambda k: _index(case, k))
        sched2 = enginerun.Schedule(case.get('sched2'))
        for k in failed_kids:
            cur = sim.snapshot()
            inner = [t for t in cur['task'].values()
                     if t['wf_ex_id'] == k['id'] and t['state'] == 'ERROR']
            if not inner:
                viol.append({'kind': 'failed-child-has-no-failed-task',
                             'detail': {'index': _index(case, k)}})
                break
            r = sim.call(cl.rerun_workflow, inner[0]['id'], reset=True,
                         skip=False)
            if r[0] != 'ok':
                viol.append({'kind': 'rerun-refused',
                             'detail': str(r[1])[:200]})
                break
            now = sim.snapshot()
            st_now = (now['wf'][k['id']]['state'],
                      now['task'][t_rows[0]['id']]['state'],
                      now['wf'][wid]['state'])
            if st_now != ('RUNNING', 'RUNNING', 'RUNNING'):
                viol.append({'kind': 'inner-rerun-did-not-revive-parents',
                             'detail': {'child, with-items task, root':
                                        st_now}})
                break
            enginerun.run_until_quiet(sched2, 120 * (n + 2) + 300,
                                      observe=observe)
        if not viol:
            snap = sim.snapshot()
            items.clear()
            viol.extend(_final_checks(case, snap, wid, items, phase=2))
            root = snap['wf'][wid]
            if not viol and root['state'] != 'SUCCESS':
                viol.append({'kind': 'workflow-not-successful-after-inner-'
                             'reruns', 'detail': {'state': root['state']}})
    elif case.get('rerun') and t_rows and t_rows[0]['state'] == 'ERROR' \
            and not viol:
        did_rerun = True
        before = {k['id'] for k in _kids(case, snap, t_rows[0]['id'])}
        failed_idx = sorted({_index(case, k) for k in
                             _kids(case, snap, t_rows[0]['id'])
                             if k['state'] == 'ERROR' and k.get('accepted')})
        items.clear()
        items.update(case.get('rerun_items') or {})
        if case['sub']:
            items.clear()
        if case.get('retry_rerun') is not None:
            # attempts are counted per item across the whole history: the
            # bad item fails the first attempt of the new run only
            bad = case['retry_rerun']
            items.clear()
            items[str(bad)] = ['errn', sim.W.nact.get(('w', bad), 0) + 1,
                               'again-%d' % bad]
        reset = case['rerun'] == 'reset'
        if case['sub']:
            # new attempt: nothing is "bad" any more
            pass
        r = sim.call(sim.rpc_clients.get_engine_client().rerun_workflow,
                     t_rows[0]['id'], reset=reset, skip=False)
        if r[0] != 'ok':
            viol.append({'kind': 'rerun-refused',
                         'detail': str(r[1])[:200]})
        sched2 = enginerun.Schedule(case.get('sched2'))
        enginerun.run_until_quiet(sched2, 120 * (n + 2) + 300,
                                  observe=observe)
        snap = sim.snapshot()
        kids2 = _kids(case, snap, t_rows[0]['id'])
        new_idx = sorted(_index(case, k) for k in kids2
                         if k['id'] not in before)
        want = list(range(n)) if reset else failed_idx
        if case.get('retry_rerun') is not None:
            t2 = [t for t in snap['task'].values()
                  if t['name'] == 'w' and t['wf_ex_id'] == wid][0]
            acc = sorted(_index(case, k) for k in kids2
                         if k.get('accepted') and k['state'] == 'SUCCESS')
            if t2['state'] != 'SUCCESS' or acc != list(range(n)):
                viol.append({'kind': 'retry-policy-not-applied-to-the-rerun',
                             'detail': {'reset': reset, 'state': t2['state'],
                                        'accepted_success': acc, 'n': n,
                                        'retry': case['retry']}})
        elif not case['sub'] and new_idx != want:
            viol.append({'kind': 'rerun-executed-wrong-items',
                         'detail': {'reset': reset, 'executed': new_idx,
                                    'expected': want}})
        if not case['sub'] and case.get('retry_rerun') is None:
            viol.extend(_final_checks(case, snap, wid, items, phase=2))
    for e in common.undeclared_errors(_Res(), server=True):
        viol.append({'kind': 'undeclared-error',
                     'detail': {k: e.get(k) for k in
                                ('type', 'msg', 'frame', 'where', 'label')}})
    if stats is not None:
        tg = ['n_%s' % (n if n < 3 else '3plus'),
              'conc_%s' % (case['conc'][0] if case['conc'] else 'none'),
              'items_sub' if case['sub'] else 'items_action']
        if case['zipped']:
            tg.append('zipped')
        if did_rerun:
            tg.append('rerun_' + case['rerun'])
            if limit is not None and limit < n:
                tg.append('rerun_with_concurrency_below_n')
        if case.get('never'):
            tg.append('timeout_with_items_that_never_answer')
        if case.get('retry'):
            tg.append('retry_policy')
            if limit is not None and limit < n:
                tg.append('retry_with_concurrency_below_n')
        if reordered:
            tg.append('completion_order_differs')
        if any(v[0] == 'cancel' for v in case['items'].values()):
            tg.append('has_cancelled_item')
        nontriv = (n >= 2 and reordered) or (
            limit is not None and limit < n) or did_rerun
        stats.case(runner.fp([case, sched.taken]), nontriv, tg,
                   {'case': {k: v for k, v in case.items()
                             if k not in ('sched', 'sched2')},
                    'yaml': text.splitlines(),
                    'max_running': state['max_running']})
    seen = set()
    out = []
    for v in viol:
        if v['kind'] in seen:
            continue
        seen.add(v['kind'])
        v['yaml'] = text.splitlines()
        v['sched_taken'] = sched.taken
        out.append(v)
    return out


class _Res(object):
    @property
    def server_errors(self):
        from mv import sim
        return sim.W.server_errors

    @property
    def errors(self):
        from mv import sim
        return sim.W.errors

    @property
    def swallowed(self):
        from mv import sim
        return sim.W.swallowed


def _kids(case, snap, tid):
    if case['sub']:
        out = []
        for w in snap['wf'].values():
            if w['task_execution_id'] == tid:
                d = dict(w)
                d['index'] = (w['runtime_context'] or {}).get('index')
                out.append(d)
        return out
    return [a for a in snap['action'].values()
            if a['task_execution_id'] == tid]


def _index(case, k):
    if case['sub']:
        return (k.get('runtime_context') or {}).get('index', k.get('index'))
    return k['index']


def _final_checks(case, snap, wid, items, phase):
    viol = []
    n = case['n']
    ts = [t for t in snap['task'].values()
          if t['name'] == 'w' and t['wf_ex_id'] == wid]
    root = snap['wf'][wid]
    if not ts:
        return [{'kind': 'with-items-task-missing', 'detail': {}}]
    t = ts[0]
    kids = _kids(case, snap, t['id'])
    if case.get('never'):
        # some items never answer: the task may stay open or fail by its
        # timeout, but it must not be SUCCESS (no result for those items)
        if t['state'] == 'SUCCESS':
            return [{'kind': 'task-succeeded-although-items-never-completed',
                     'detail': {'never': case['never'],
                                'items': sorted((_index(case, k), k['state'],
                                                 bool(k.get('accepted')))
                                                for k in kids)}}]
        return []
    if t['state'] not in FINAL:
        return [{'kind': 'with-items-task-not-finished',
                 'detail': {'state': t['state'], 'root': root['state']}}]
    idxs = [_index(case, k) for k in kids]
    if any(i is None or i < 0 or i >= max(n, 1) for i in idxs) and n > 0:
        viol.append({'kind': 'item-index-out-of-range',
                     'detail': {'indexes': idxs, 'n': n}})
    acc = [k for k in kids if k.get('accepted')]
    acc_idx = sorted(_index(case, k) for k in acc)
    any_cancel = any(k['state'] == 'CANCELLED' for k in acc)
    any_err = any(k['state'] == 'ERROR' for k in acc)
    if n == 0:
        if kids:
            viol.append({'kind': 'empty-list-started-items',
                         'detail': {'n': len(kids)}})
        if t['state'] != 'SUCCESS':
            viol.append({'kind': 'empty-list-did-not-succeed',
                         'detail': {'state': t['state']}})
        return viol
    if case.get('retry'):
        # reference: item i fails its first k_i attempts; the retry policy
        # repeats the whole task (it invalidates every item result), so the
        # task is attempted T = min(retry + 1, max k + 1) times and every
        # item runs once per task attempt
        ks = {int(i): v[1] for i, v in items.items() if v[0] == 'errn'}
        maxk = max(ks.values()) if ks else 0
        T = min(case['retry'] + 1, maxk + 1)
        want_runs = {i: T for i in range(n)}
        got_runs = {i: idxs.count(i) for i in range(n)}
        if got_runs != want_runs:
            viol.append({'kind': 'retry-executed-wrong-items',
                         'detail': {'executions_per_index': got_runs,
                                    'expected': want_runs,
                                    'retry': case['retry']}})
    elif phase == 1 and len(idxs) != len(set(idxs)):
        viol.append({'kind': 'item-started-more-than-once',
                     'detail': {'indexes': sorted(idxs)}})
    if not any_cancel:
        if acc_idx != list(range(n)):
            viol.append({'kind': 'accepted-executions-not-one-per-index',
                         'detail': {'accepted_indexes': acc_idx, 'n': n,
                                    'phase': phase}})
    want = 'CANCELLED' if any_cancel else ('ERROR' if any_err else 'SUCCESS')
    if t['state'] != want:
        viol.append({'kind': 'wrong-final-state',
                     'detail': {'state': t['state'], 'expected': want,
                                'phase': phase}})
    if t['state'] == 'SUCCESS':
        res = (t['published'] or {}).get('res')
        exp = [expected_value(case, i) for i in range(n)]
        if res != exp:
            viol.append({'kind': 'result-not-in-item-order',
                         'detail': {'result': res, 'expected': exp}})
    return viol


def shard_main(shard, nshards, seed, tier, opts):
    from mv import sim, enginerun
    from hypothesis import strategies as st_
    from mv.gen.draw import HDraw
    st = runner.Stats()
    sched_type = common.shard_scheduler(shard)
    sim.boot(sched_type)

    @st_.composite
    def strat(draw):
        D = HDraw(draw)
        c = gen_case(D, opts.get('max_n', 8))
        c['sched'] = enginerun.gen_schedule(D, max_devs=8, horizon=80)
        c['sched2'] = enginerun.gen_schedule(D, max_devs=4, horizon=60)
        return c

    fail = runner.drive(strat(), lambda c: check_case(c, st),
                        opts.get('examples', 40), seed * 1000 + shard,
                        time_budget=opts.get('time_budget'),
                        shrink_budget=opts.get('shrink_budget', 40), stats=st)
    if fail:
        fail['scheduler'] = sched_type
    out = {'stats': st.to_dict(), 'failures': [fail] if fail else []}
    if shard == 0:
        from mv.props import known
        out['known_hits'] = known.run_known(PROP)
    return out


def replay(path):
    from mv import sim
    f = common.replay_case(path)
    sim.boot(f.get('scheduler', 'default'))
    c = f['case']
    tk = f['violations'][0].get('sched_taken')
    if tk:
        c['sched'] = {'recorded': tk}
    return check_case(c)


def main(tier, seed):
    t0 = time.time()
    opts = {'examples': common.budget(tier, 45, 1500),
            'max_n': common.budget(tier, 8, 20),
            'time_budget': common.budget(tier, 80, 1500),
            'shrink_budget': common.budget(tier, 30, 150)}
    results = runner.run_shards('mv.props.c07', 'shard_main', 16, seed, tier,
                                opts)
    stats = runner.Stats.merge([r['stats'] for r in results])
    herrs = [h for r in results for h in r['harness_errors']]
    failures = sorted([f for r in results for f in r['failures']],
                      key=lambda f: len(str(f)))
    hits = [h for r in results for h in r.get('known_hits', [])]
    return runner.finish(
        PROP, tier, seed, 'exploration', t0, stats, failures[:1], herrs, RULE,
        known_hits=hits,
        assumptions=['capacity accounting races inside one statement window '
                     'are not representable (single engine process)',
                     'retry repeats the whole task (every item once per '
                     'task attempt), a rerun with reset off only the '
                     'failed items'])
