"""C05 A task sees exactly the data published by the tasks that causally
precede it; evaluating expressions never modifies the stored context.

Part A (provenance): generated fork/join graphs in which drawn tasks publish
shared variables (scalars x, y and a nested dict d with leaves a, b) as
provenance tokens "tok:<task>:<leaf>" through publish / publish-on-error;
YAQL or Jinja; completion order (schedule) and id order (salt) drawn.  Every
task echoes the variables it can see, so the value actually visible is
captured from the evaluated action input.  Oracle: the causal graph is
rebuilt from the recorded triggers; for each (task, leaf) the visible token
must come from a causally *maximal* publisher among the task's ancestors
(the input default when there is none; any maximal one when parallel
branches conflict).  The same for the workflow output.
Part B (immutability): expressions.evaluate_recursively / ContextView with
generated contexts and read-only and mutating-looking YAQL and Jinja
expressions; the context must be deep-equal before and after, and in engine
runs a task's stored in_context must not be changed by evaluating a later
expression.
"""
import copy
import time

from mv import runner
from mv.props import common

PROP = 'C05'
LEAVES = ('x', 'y', 'd.a', 'd.b')
RULE = ('provenance case = fork/join DAG (<=8 tasks, full joins, error '
        'routes) with publish / publish-on-error of x, y, d{a,b} tokens at '
        'drawn tasks x YAQL|Jinja x schedule x id salt; immutability case = '
        'generated context x expression from a catalogue of read-only and '
        'mutating-looking YAQL/Jinja forms. Non-trivial (provenance) = some '
        'join sees a leaf with publishers on >= 2 inbound ancestries one of '
        'which is dominated, or a nested value republished in one branch; '
        'non-trivial (immutability) = the expression calls a method on a '
        'context value; distinct = hash(case, choices taken)')


# --------------------------------------------------------------------------
# part A

def gen_prov(D, max_tasks=8):
    from mv.gen import workflows as G
    F = G.feats(publish=False, commands=False, expr_failures=False,
                cycles=False, partial_joins=False, defaults=False,
                guards=False, state_commands=False)
    shape = D.int(0, 10)
    if shape == 10:
        prog, outc = gen_loopside(D, G)
    elif shape < 4:
        prog, outc = gen_diamond(D, G)
    elif shape < 6:
        prog, outc = G.gen_joinshape(D, F)
        for nm in prog['order']:
            if prog['tasks'][nm].get('join') not in (None, 'all'):
                prog['tasks'][nm]['join'] = 'all'
    else:
        prog, outc = G.gen_direct(D, F, max_tasks)
    prog['input'] = {}
    # fallback sources of the statement: a leaf nobody published resolves to
    # the workflow input default or to a workflow variable (never both for
    # one name: their mutual precedence is not documented)
    prog['fallback'] = {}
    for v in ('x', 'y') if not prog.get('loopside') else ():
        r = D.int(0, 5)
        if r == 0:
            prog['input'][v] = 'in:%s' % v
            prog['fallback'][v] = 'in:%s' % v
        elif r == 1:
            prog.setdefault('vars', {})[v] = 'var:%s' % v
            prog['fallback'][v] = 'var:%s' % v
    lang = prog['lang']
    for nm in prog['order']:
        t = prog['tasks'][nm]
        t['action'] = 'std.echo'
        if lang == 'yaql':
            t['input'] = {'output': {
                'x': '<% $.get(x, none) %>', 'y': '<% $.get(y, none) %>',
                'd.a': '<% $.get(d, dict()).get(a, none) %>',
                'd.b': '<% $.get(d, dict()).get(b, none) %>',
                'g': '<% global(g) %>', 'h': '<% global(h) %>',
                '$g': '<% $.get(g, none) %>', '$h': '<% $.get(h, none) %>'}}
        else:
            t['input'] = {'output': {
                'x': "{{ _.get('x', 'none') }}",
                'y': "{{ _.get('y', 'none') }}",
                'd.a': "{{ _.get('d', {}).get('a', 'none') }}",
                'd.b': "{{ _.get('d', {}).get('b', 'none') }}",
                'g': "{{ global('g') }}", 'h': "{{ global('h') }}",
                '$g': "{{ _.get('g', 'none') }}",
                '$h': "{{ _.get('h', 'none') }}"}}
        for clause in ('publish', 'publish-on-error'):
            pub = {}
            if prog.get('loopside'):
                continue
            if prog.get('diamond'):
                pr = prog['pub_p'].get(nm, 0.0)
                if clause == 'publish':
                    if D.bool(pr):
                        pub['x'] = 'tok:%s:x' % nm
                    if D.bool(pr):
                        pub['d'] = {'a': 'tok:%s:d.a' % nm,
                                    'b': 'tok:%s:d.b' % nm}
                    if D.bool(pr / 2):
                        pub['y'] = 'tok:%s:y' % nm
                t[clause] = pub
                continue
            if D.bool(0.35):
                pub['x'] = 'tok:%s:x' % nm
            if D.bool(0.2):
                pub['y'] = 'tok:%s:y' % nm
            if D.bool(0.3):
                pub['d'] = {'a': 'tok:%s:d.a' % nm, 'b': 'tok:%s:d.b' % nm}
            if clause == 'publish-on-error' and not D.bool(0.4):
                pub = {}
            t[clause] = pub
    # a published null is a value: it shadows the input default / workflow
    # variable of the same name for everything downstream
    for v, fb in sorted((prog.get('fallback') or {}).items()):
        holders = [nm for nm in prog['order']
                   if v in (prog['tasks'][nm].get('publish') or {})]
        if holders and D.bool(0.5):
            prog['tasks'][D.choice(holders)]['publish'][v] = None
            prog['null_publish'] = True
    if not prog.get('loopside'):
        gen_tpublish(D, prog)
    if lang == 'yaql':
        prog['output_raw'] = {
            'x': '<% $.get(x, none) %>', 'y': '<% $.get(y, none) %>',
            'd.a': '<% $.get(d, dict()).get(a, none) %>',
            'd.b': '<% $.get(d, dict()).get(b, none) %>',
            'g': '<% global(g) %>', 'h': '<% global(h) %>'}
    else:
        prog['output_raw'] = {
            'x': "{{ _.get('x', 'none') }}", 'y': "{{ _.get('y', 'none') }}",
            'd.a': "{{ _.get('d', {}).get('a', 'none') }}",
            'd.b': "{{ _.get('d', {}).get('b', 'none') }}",
            'g': "{{ global('g') }}", 'h': "{{ global('h') }}"}
    return prog, outc


GLOBALS = ('g', 'h')
_CL = {'on-success': 'S', 'on-error': 'E', 'on-complete': 'C'}


def gen_tpublish(D, prog):
    """Transition-level publish (branch and global scope) at drawn tasks.

    wf_lang_v2.rst: what on-complete publishes is merged with what on-success
    / on-error publishes (depending on the task state) and the latter take
    precedence.  The relation between the task-level `publish` and a
    transition-level one is not documented, so a variable is never published
    at both levels by one task for one state."""
    for nm in prog['order']:
        t = prog['tasks'][nm]
        if not D.bool(0.45):
            continue
        tp = {}
        task_level = {'on-success': set(t.get('publish') or {}),
                      'on-error': set(t.get('publish-on-error') or {})}
        task_level['on-complete'] = task_level['on-success'] | \
            task_level['on-error']
        for clause in ('on-success', 'on-error', 'on-complete'):
            if not D.bool(0.5):
                continue
            spec = {}
            br = {}
            for v in ('x', 'y'):
                if v not in task_level[clause] and D.bool(0.4):
                    br[v] = 'tok:%s:%s:%s' % (nm, _CL[clause], v)
            gl = {}
            for v in GLOBALS:
                if D.bool(0.35):
                    gl[v] = 'tok:%s:%s:%s' % (nm, _CL[clause], v)
            if br:
                spec['branch'] = br
            if gl:
                spec['global'] = gl
            if spec:
                tp[clause] = spec
        if tp:
            t['tpublish'] = tp


def ref_published(t, state):
    """(branch dict, global dict) a task publishes when it ends in `state`,
    from the documentation: task-level publish(-on-error) plus on-complete
    publish overridden by on-success / on-error publish."""
    br, gl = {}, {}
    tp = t.get('tpublish') or {}
    spec = 'on-success' if state == 'SUCCESS' else 'on-error'
    for clause in ('on-complete', spec):
        br.update((tp.get(clause) or {}).get('branch') or {})
        gl.update((tp.get(clause) or {}).get('global') or {})
    lvl = t.get('publish') if state == 'SUCCESS' else \
        t.get('publish-on-error')
    for k, v in (lvl or {}).items():
        br[k] = v     # disjoint from the transition-level names by design
    return br, gl


def gen_loopside(D, G):
    """init -> step (publishes x = iteration counter) -> [side, check];
    check loops back to step while x < K; side (a single-parent task forked
    inside the cycle, optionally delayed) -> after.  Every instance of side /
    after must see the x of the step instance that caused it, not the one of
    a later iteration that completed meanwhile."""
    prog = {'name': 'wf', 'type': 'direct', 'tasks': {}, 'order': [],
            'input': {}, 'defaults': None, 'output': None,
            'lang': 'yaql', 'loopside': True, 'has_cycle': True}
    outc = {}

    def add(nm):
        prog['tasks'][nm] = G.new_task()
        prog['tasks'][nm]['form'] = {'action': 'noop'}
        prog['order'].append(nm)
        outc[nm] = [['ok', 'a']]
    for nm in ('init', 'step', 'side', 'check', 'after'):
        add(nm)
    K = D.int(2, 3)
    t = prog['tasks']
    t['init']['on-success'].append({'to': 'step', 'guard': None})
    t['step']['publish'] = {'x': ['inc', 'x']}
    t['step']['on-success'].append({'to': 'side', 'guard': None})
    t['step']['on-success'].append({'to': 'check', 'guard': None})
    t['check']['on-success'].append({'to': 'step', 'guard': ['lt', 'x', K]})
    t['side']['on-success'].append({'to': 'after', 'guard': None})
    r = D.int(0, 3)
    if r == 0:
        t['side']['wait-before'] = 1
    elif r == 1:
        t['side']['wait-after'] = 1
    elif r == 2:
        t['side']['retry'] = {'count': 1, 'delay': 1}
        outc['side'] = [['seq', [['err', 'once'], ['ok', 'a']]]]
    if D.bool(0.3):
        t['side']['publish'] = {'y': 'tok:side:y'}
    return prog, outc


def gen_diamond(D, G):
    """root publishes; k parallel branches (chains of 1-2 tasks) some of
    which republish; a full join; a tail."""
    prog = {'name': 'wf', 'type': 'direct', 'tasks': {}, 'order': [],
            'input': {}, 'defaults': None, 'output': None,
            'lang': 'jinja' if D.bool(0.25) else 'yaql', 'diamond': True,
            'pub_p': {}}
    outc = {}

    def add(nm, p):
        prog['tasks'][nm] = G.new_task()
        prog['tasks'][nm]['form'] = {'action': 'noop'}
        prog['order'].append(nm)
        outc[nm] = [['ok', 'a']]
        prog['pub_p'][nm] = p
    add('r', 0.9)
    k = D.int(2, 4)
    ends = []
    for i in range(k):
        b = 'b%d' % i
        add(b, 0.45)
        prog['tasks']['r']['on-success'].append({'to': b, 'guard': None})
        end = b
        if D.bool(0.4):
            c = 'b%d_2' % i
            add(c, 0.3)
            prog['tasks'][b]['on-success'].append({'to': c, 'guard': None})
            end = c
        ends.append(end)
    add('j', 0.3)
    prog['tasks']['j']['join'] = 'all'
    for e in ends:
        prog['tasks'][e]['on-success'].append({'to': 'j', 'guard': None})
    if D.bool(0.6):
        add('tail', 0.2)
        prog['tasks']['j']['on-success'].append({'to': 'tail',
                                                 'guard': None})
    return prog, outc


def _fallback(prog, leaf):
    fb = (prog.get('fallback') or {}).get(leaf)
    return {fb} if fb is not None else {None, 'none'}


def _has(pub, leaf):
    """Does the published dict define the leaf (a null value counts)?"""
    cur = pub
    for k in leaf.split('.'):
        if not isinstance(cur, dict) or k not in cur:
            return False
        cur = cur[k]
    return True


def _leaf(pub, leaf):
    cur = pub
    for k in leaf.split('.'):
        if not isinstance(cur, dict) or k not in cur:
            return None
        cur = cur[k]
    return cur


def check_prov(case, stats=None):
    from mv import enginerun, sim
    from mv.gen import workflows as G
    from mv.ref import wfsem
    prog = case['prog']
    # the reference semantics is only used to exclude the known
    # join-retrigger shape: data is irrelevant for that (nested values are
    # not hashable in the model), so strip the publish clauses
    bare = copy.deepcopy(prog)
    for t in bare['tasks'].values():
        t['publish'] = {}
        t['publish-on-error'] = {}
        t.pop('tpublish', None)
    bare.pop('output_raw', None)
    m = None
    if not prog.get('loopside'):       # (no joins there)
        m = wfsem.model_for(bare, {}, case['outcomes'])
        try:
            m.outcomes_set()
        except wfsem.TooBig:
            return []
    if m is not None and m.retrigger_possible:
        if stats:
            stats.counters['excluded_known_shape_join_retrigger'] += 1
        return []
    res = enginerun.run_case(case, full=True)
    if res.start_error is not None or not res.quiescent:
        return []
    snap = res.snap
    root = snap['wf'][res.wf_ex_id]
    if root['state'] not in ('SUCCESS', 'ERROR'):
        return []
    tasks = {t['id']: t for t in snap['task'].values()
             if t['wf_ex_id'] == res.wf_ex_id}
    parents = {}
    for tid, t in tasks.items():
        if t.get('spec_join') is not None:
            # a join is reached through the routes that fired towards it
            # (the record of a *failed* join names the blocking tasks,
            # which did not route to it and pass it no data)
            parents[tid] = [pid for pid, p in tasks.items()
                            if p['state'] in ('SUCCESS', 'ERROR') and any(
                                n == t['name']
                                for n, _ev in (p['next_tasks'] or []))]
            continue
        trig = (t['runtime_context'] or {}).get('triggered_by') or []
        parents[tid] = [x['task_id'] for x in trig if x.get('task_id')
                        in tasks]
    anc_cache = {}

    def ancestors(tid):
        if tid in anc_cache:
            return anc_cache[tid]
        out = set()
        for p in parents.get(tid, []):
            out.add(p)
            out |= ancestors(p)
        anc_cache[tid] = out
        return out

    def expected(anc, leaf):
        pubs = [a for a in anc if _has(tasks[a]['published'] or {}, leaf)]
        maximal = [p for p in pubs
                   if not any(p in ancestors(q) for q in pubs if q != p)]
        return pubs, maximal

    viol = []
    nontriv = False
    visible = {}
    for aid, info in res.actions.items():
        if info.get('task_id') in tasks:
            visible[info['task_id']] = (info.get('input') or {}).get(
                'output') or {}
    for tid, t in tasks.items():
        if tid not in visible:
            continue
        anc = ancestors(tid)
        for leaf in LEAVES:
            pubs, maximal = expected(anc, leaf)
            seen = visible[tid].get(leaf)
            allowed = {_leaf(tasks[p]['published'], leaf) for p in maximal} \
                if maximal else _fallback(prog, leaf)
            if len(pubs) > len(maximal) and len(parents.get(tid, [])) >= 2:
                nontriv = True
            if seen not in allowed:
                kind = 'stale-value-visible' if any(
                    seen == _leaf(tasks[p]['published'], leaf)
                    for p in pubs) else 'wrong-value-visible'
                viol.append({'kind': kind, 'detail': {
                    'task': t['name'], 'leaf': leaf, 'seen': seen,
                    'allowed': sorted(map(str, allowed)),
                    'publishers': sorted(tasks[p]['name'] for p in pubs),
                    'maximal': sorted(tasks[p]['name'] for p in maximal)}})
    # ---- transition-level publish: documented merge, global scope
    gpub = {}      # task id -> {global var: token} by the reference
    forced = sim.W.forced_fail > 0
    if forced and stats is not None:
        # a task failed by force (failing guard expression...) ends ERROR
        # after it had published for SUCCESS: outside the documented merge
        stats.counters['transition_publish_skipped_forced_failure'] += 1
    for tid, t in tasks.items():
        if t['state'] not in ('SUCCESS', 'ERROR') or forced:
            continue
        pt = prog['tasks'].get(t['name']) or {}
        br, gl = ref_published(pt, t['state'])
        if gl:
            gpub[tid] = gl
        if pt.get('tpublish'):
            if stats is not None:
                stats.tags['transition_publish_task'] += 1
            if (t['published'] or {}) != br:
                viol.append({'kind': 'published-differs-from-documented-'
                             'merge', 'detail': {
                                 'task': t['name'], 'state': t['state'],
                                 'leaf': 'branch',
                                 'published': t['published'],
                                 'documented': br,
                                 'tpublish': pt.get('tpublish')}})

    def global_allowed(tid, var, anc):
        pubs = [p for p in gpub if var in gpub[p]]
        apubs = [p for p in pubs if p in anc]
        maximal = [p for p in apubs
                   if not any(p in ancestors(q) for q in apubs if q != p)]
        allowed = {gpub[p][var] for p in maximal} if maximal else {None}
        conc = [p for p in pubs if p not in anc and p != tid
                and (tid is None or tid not in ancestors(p))]
        allowed |= {gpub[p][var] for p in conc}
        return allowed, apubs, conc

    for tid, t in tasks.items():
        if tid not in visible or forced:
            continue
        anc = ancestors(tid)
        for var in GLOBALS:
            allowed, apubs, conc = global_allowed(tid, var, anc)
            for key, none in ((var, (None,)), ('$' + var, (None, 'none'))):
                seen = visible[tid].get(key)
                ok = seen in allowed or (None in allowed and seen in none)
                if apubs and not conc:
                    nontriv = True
                if not ok:
                    viol.append({'kind': 'global-variable-wrong-or-lost',
                                 'detail': {
                                     'task': t['name'], 'leaf': key,
                                     'seen': seen,
                                     'allowed': sorted(map(str, allowed)),
                                     'publishers': sorted(
                                         tasks[p]['name'] for p in gpub
                                         if var in gpub[p])}})
    if root['state'] == 'SUCCESS' and not forced:
        for var in GLOBALS:
            pubs = [p for p in gpub if var in gpub[p]]
            maximal = [p for p in pubs
                       if not any(p in ancestors(q) for q in pubs if q != p)]
            allowed = {gpub[p][var] for p in maximal} if maximal else {None}
            seen = (root['output'] or {}).get(var)
            if seen not in allowed:
                viol.append({'kind': 'workflow-output-global-wrong-or-lost',
                             'detail': {'leaf': var, 'seen': seen,
                                        'allowed': sorted(map(str, allowed))}})
    # workflow output (SUCCESS only: output is evaluated)
    if root['state'] == 'SUCCESS':
        ends = [tid for tid, t in tasks.items()
                if t['state'] in ('SUCCESS', 'ERROR')
                and not t['next_tasks']]
        sink_anc = set(ends)
        for e in ends:
            sink_anc |= ancestors(e)
        for leaf in LEAVES:
            pubs, maximal = expected(sink_anc, leaf)
            seen = (root['output'] or {}).get(leaf)
            allowed = {_leaf(tasks[p]['published'], leaf) for p in maximal} \
                if maximal else _fallback(prog, leaf)
            if seen not in allowed:
                viol.append({'kind': 'workflow-output-stale-or-wrong',
                             'detail': {
                                 'leaf': leaf, 'seen': seen,
                                 'allowed': sorted(map(str, allowed)),
                                 'maximal': sorted(tasks[p]['name']
                                                   for p in maximal)}})
    if stats is not None:
        tg = G.tags(prog, case['outcomes']) + ['provenance']
        stats.case(runner.fp([prog, case['outcomes'], res.sched_taken,
                              case.get('salt')]), nontriv, tg,
                   common.sample_of(case, res))
    seen_k = set()
    out = []
    for v in viol:
        k = (v['kind'], v['detail'].get('leaf'))
        if k in seen_k:
            continue
        seen_k.add(k)
        v['yaml'] = G.render(prog).splitlines()
        v['sched_taken'] = res.sched_taken
        out.append(v)
    return out


# --------------------------------------------------------------------------
# part B

YAQL_EXPRS = [
    '<% $.lst %>', '<% $.lst + [9] %>', '<% $.lst.append(9) %>',
    '<% $.d.set(k, 1) %>', '<% $.d.delete(a) %>', '<% $.lst.insert(0, 7) %>',
    '<% $.lst.orderBy($) %>', '<% $.d.keys() %>',
    '<% dict($.d.items()) %>', '<% $.lst.reverse() %>',
    '<% $.d.get(n).set(z, 5) %>', '<% $.lst.where($ > 1) %>',
    '<% $.s.toUpper() %>', '<% $.d.get(n).get(m) %>',
    '<% $.lst.replace(0, 42) %>', '<% $.d.n.m %>']
JINJA_EXPRS = [
    '{{ _.lst }}', '{{ _.lst + [9] }}', '{{ _.lst.append(9) }}',
    '{{ _.d.update({"k": 1}) }}', '{{ _.d.pop("a") }}', '{{ _.lst.pop() }}',
    '{{ _.d.setdefault("z", 1) }}', '{{ _.lst.sort() }}',
    '{{ _.lst.reverse() }}', '{{ _.d.clear() }}',
    '{{ _.d.n.update({"m": 0}) }}', '{{ _.lst.insert(0, 7) }}',
    '{{ _.lst.extend([1, 2]) }}', '{{ _.d.n.m }}', '{{ _.s | upper }}',
    '{{ _.lst | sort }}', '{{ _.d.popitem() }}', '{{ _.lst.remove(1) }}',
    '{{ _.lst.clear() }}', '{{ _.d.n.pop("m") }}']


def gen_immut(D):
    lang = D.choice(['yaql', 'jinja', 'jinja'])
    e = D.choice(YAQL_EXPRS if lang == 'yaql' else JINJA_EXPRS)
    ctx = {'lst': [D.int(0, 3) for _ in range(D.int(1, 4))],
           'd': {'a': D.int(0, 9), 'b': 'v', 'n': {'m': D.int(0, 9)}},
           's': 'abc'}
    shape = D.choice(['scalar', 'dict', 'list', 'nested'])
    if shape == 'dict':
        data = {'k1': e, 'k2': 'plain'}
    elif shape == 'list':
        data = [e, 'plain']
    elif shape == 'nested':
        data = {'outer': {'inner': [e]}}
    else:
        data = e
    return {'immut': True, 'expr': e, 'data': data, 'ctx': ctx,
            'via': D.choice(['dict', 'context_view']), 'lang': lang}


def check_immut(case, stats=None):
    from mistral import expressions as expr
    from mistral.workflow import data_flow
    ctx = copy.deepcopy(case['ctx'])
    before = copy.deepcopy(ctx)
    data = copy.deepcopy(case['data'])
    data_before = copy.deepcopy(data)
    target = ctx
    if case['via'] == 'context_view':
        target = data_flow.ContextView({'other': 1}, ctx)
    err = None
    try:
        expr.evaluate_recursively(data, target)
    except Exception as e:
        err = type(e).__name__
    viol = []
    if ctx != before:
        viol.append({'kind': 'expression-evaluation-modified-context',
                     'detail': {'expr': case['expr'], 'before': before,
                                'after': ctx, 'via': case['via']}})
    if data != data_before:
        viol.append({'kind': 'expression-evaluation-modified-its-input',
                     'detail': {'expr': case['expr']}})
    if stats is not None:
        calls = '(' in case['expr'] or '|' in case['expr']
        stats.case(runner.fp(['immut', case]), calls,
                   ['immutability', 'lang_' + case['lang'],
                    'via_' + case['via'], 'raised' if err else 'evaluated'],
                   {'expr': case['expr'], 'ctx': case['ctx'], 'error': err})
    return viol


IMMUT_WF = """
version: '2.0'
wf:
  tasks:
    t1:
      action: std.noop
      publish:
        lst: [1, 2]
        d: {a: 1}
      on-success: t2
    t2:
      action: std.echo
      input:
        output: %s
      publish:
        seen_lst: <%% $.lst %%>
        seen_d: <%% $.d %%>
      on-success: t3
    t3:
      action: std.echo
      input:
        output: <%% $.lst %%>
"""


def check_engine_immut(expr_text, stats=None):
    """A mutating-looking expression in a task input must not change what
    the same task publishes / later tasks see / the stored in_context."""
    from mv import sim, enginerun
    text = IMMUT_WF % ("'" + expr_text.replace("'", "''") + "'")
    prog = {'name': 'wf', 'type': 'direct', 'order': ['t1', 't2', 't3']}
    case = {'prog': prog, 'yaml': text, 'outcomes': {},
            'sched': {'policy': 'fifo'}}
    res = enginerun.run_case(case, full=True)
    viol = []
    if res.start_error is not None:
        return viol
    for t in res.snap['task'].values():
        ic = t.get('in_context') or {}
        if t['name'] in ('t2', 't3'):
            if ic.get('lst') not in (None, [1, 2]) or \
                    ic.get('d') not in (None, {'a': 1}):
                viol.append({'kind': 'stored-in-context-modified-by-'
                             'expression', 'detail': {
                                 'expr': expr_text, 'task': t['name'],
                                 'lst': ic.get('lst'), 'd': ic.get('d')}})
        if t['name'] == 't2' and t['state'] == 'SUCCESS':
            pub = t['published'] or {}
            if pub.get('seen_lst') != [1, 2] or pub.get('seen_d') != {'a': 1}:
                viol.append({'kind': 'expression-side-effect-visible-in-'
                             'publish', 'detail': {'expr': expr_text,
                                                   'published': pub}})
    if stats is not None:
        stats.case(runner.fp(['eng-immut', expr_text]), True,
                   ['engine_immutability'], {'expr': expr_text})
    return viol


def check_case(case, stats=None):
    if case.get('immut'):
        return check_immut(case, stats)
    if case.get('engine_immut'):
        return check_engine_immut(case['expr'], stats)
    return check_prov(case, stats)


def classify(viol, known):
    for k in known:
        m = k.get('match') or {}
        if viol['kind'] in m.get('kinds', []) and any(
                s in str(viol['detail'].get('expr')) for s in
                m.get('expr_contains', [''])):
            return k
    return None


def shard_main(shard, nshards, seed, tier, opts):
    from mv import sim, enginerun
    from hypothesis import strategies as st_
    from mv.gen.draw import HDraw
    st = runner.Stats()
    sched_type = common.shard_scheduler(shard)
    sim.boot(sched_type)
    known = runner.known_for(PROP)
    collected = []

    @st_.composite
    def strat(draw):
        D = HDraw(draw)
        r = D.int(0, 9)
        if r < 2:
            return gen_immut(D)
        if r == 2:
            return {'engine_immut': True,
                    'expr': D.choice(JINJA_EXPRS + YAQL_EXPRS)}
        prog, outc = gen_prov(D, opts.get('max_tasks', 8))
        return {'prog': prog, 'outcomes': outc, 'input': {},
                'sched': enginerun.gen_schedule(D, max_devs=6),
                'salt': D.int(0, 60)}

    def run(c):
        viol = check_case(c, st)
        unknown = []
        for v in viol:
            k = classify(v, known)
            if k:
                st.counters['known:' + k['id']] += 1
            else:
                unknown.append(v)
        return unknown

    fail = runner.drive(strat(), run, opts.get('examples', 60),
                        seed * 1000 + shard,
                        time_budget=opts.get('time_budget'),
                        shrink_budget=opts.get('shrink_budget', 40), stats=st)
    if fail:
        fail['scheduler'] = sched_type
    out = {'stats': st.to_dict(), 'failures': [fail] if fail else []}
    if shard == 0:
        from mv.props import known as kn
        out['known_hits'] = kn.run_known(PROP)
    return out


def replay(path):
    from mv import sim
    f = common.replay_case(path)
    sim.boot(f.get('scheduler', 'default'))
    c = f['case']
    tk = f['violations'][0].get('sched_taken')
    if tk and 'prog' in c:
        c['sched'] = {'recorded': tk}
    return check_case(c)


def main(tier, seed):
    t0 = time.time()
    opts = {'examples': common.budget(tier, 150, 4000),
            'max_tasks': common.budget(tier, 8, 10),
            'time_budget': common.budget(tier, 80, 1500),
            'shrink_budget': common.budget(tier, 40, 200)}
    results = runner.run_shards('mv.props.c05', 'shard_main', 16, seed, tier,
                                opts)
    stats = runner.Stats.merge([r['stats'] for r in results])
    herrs = [h for r in results for h in r['harness_errors']]
    failures = sorted([f for r in results for f in r['failures']],
                      key=lambda f: len(str(f)))
    hits = [h for r in results for h in r.get('known_hits', [])]
    return runner.finish(
        PROP, tier, seed, 'exploration', t0, stats, failures[:1], herrs, RULE,
        known_hits=hits,
        assumptions=['default configuration: context versioning enabled, '
                     'merge strategy replace',
                     'the causal graph is rebuilt from the triggered_by '
                     'records of the run'])
