"""C08 Task policies bound and shape execution as documented.

One policy-decorated task `p` (successors: ok_t on-success, err_t on-error)
with generated policy parameters — literal / YAQL / Jinja / via
task-defaults — per-attempt outcomes, and timers racing results (advancing
the virtual clock is a schedulable choice).  Oracle: a reference model of the
documented policy semantics evaluated over the observed trace with virtual
timestamps.
"""
import time

from mv import runner
from mv.props import common

PROP = 'C08'
FINAL = ('SUCCESS', 'ERROR', 'CANCELLED')
RULE = ('case = policies on one task (retry count 0..4, delay 0..5, '
        'break-on/continue-on; wait-before 0..5; wait-after 0..5; timeout '
        '0..6; fail-on; pause-before; given as literal / YAQL / Jinja / '
        'task-defaults / invalid evaluated value) x per-attempt outcome '
        'sequence (ok / err / never) x schedule in which clock advances race '
        'results; non-trivial = >= 2 attempts, or a timer and a result were '
        'enabled at the same step, or pause-before/wait-after/fail-on '
        'active; distinct = hash(case, choices taken)')


def gen_case(D):
    c = {'retry': None, 'wait_before': None, 'wait_after': None,
         'timeout': None, 'fail_on': None, 'pause_before': None,
         'form': D.choice(['lit', 'lit', 'yaql', 'jinja']),
         'defaults': D.bool(0.2), 'invalid': None,
         'attempts': [], 'salt': D.int(0, 20)}
    if D.bool(0.6):
        c['retry'] = {'count': D.int(0, 4), 'delay': D.int(0, 5),
                      'break_on': D.choice([None, None, True, False]),
                      'continue_on': D.choice([None, None, None, True,
                                               False])}
        c['defaults_too'] = D.bool(0.3)
    if D.bool(0.25):
        c['wait_before'] = D.int(0, 5)
    if D.bool(0.25):
        c['wait_after'] = D.int(0, 5)
    if D.bool(0.3):
        c['timeout'] = D.int(1, 6)
    if D.bool(0.2):
        c['fail_on'] = D.bool(0.6)
    if D.bool(0.15):
        c['pause_before'] = D.bool(0.7)
    if D.bool(0.08):
        c['invalid'] = D.choice(['wait_before', 'wait_after', 'timeout',
                                 'retry_delay', 'retry_count'])
        c['form'] = 'yaql'
        k = c['invalid']
        if k in ('wait_before', 'wait_after', 'timeout') and c[k] is None:
            c[k] = 2
        if k.startswith('retry') and c['retry'] is None:
            c['retry'] = {'count': 2, 'delay': 1, 'break_on': None,
                          'continue_on': None}
    n = 6
    for _ in range(n):
        r = D.int(0, 9)
        c['attempts'].append(['ok', 'a'] if r < 4 else (
            ['err', 'boom'] if r < 9 else ['never']))
    if c['timeout'] is None:
        c['attempts'] = [a if a[0] != 'never' else ['err', 'boom']
                         for a in c['attempts']]
    elif D.bool(0.35):
        # with a timeout: an action that never answers, so that only the
        # timer can end the attempt (together with whatever other policy
        # was drawn: wait-before, retry, pause-before...)
        c['attempts'][D.int(0, 1)] = ['never']
    return c


def _v(case, name, val, inp):
    """Render a numeric/boolean policy value in the chosen form."""
    if case.get('invalid') == name:
        inp['bad_' + name] = 'oops' if name.endswith('count') else -3
        return '<%% $.bad_%s %%>' % name
    f = case['form']
    if f == 'lit' or val is None:
        return val
    inp['v_' + name] = val
    if f == 'yaql':
        return '<%% $.v_%s %%>' % name
    return '{{ _.v_%s }}' % name


def render(case):
    import yaml
    inp = {}
    pol = {}
    if case['retry']:
        r = {'count': _v(case, 'retry_count', case['retry']['count'], inp),
             'delay': _v(case, 'retry_delay', case['retry']['delay'], inp)}
        if case['retry']['break_on'] is not None:
            inp['brk'] = case['retry']['break_on']
            r['break-on'] = '<% $.brk %>'
        if case['retry']['continue_on'] is not None:
            inp['cont'] = case['retry']['continue_on']
            r['continue-on'] = '<% $.cont %>'
        pol['retry'] = r
    if case['wait_before'] is not None:
        pol['wait-before'] = _v(case, 'wait_before', case['wait_before'], inp)
    if case['wait_after'] is not None:
        pol['wait-after'] = _v(case, 'wait_after', case['wait_after'], inp)
    if case['timeout'] is not None:
        pol['timeout'] = _v(case, 'timeout', case['timeout'], inp)
    if case['fail_on'] is not None:
        inp['fo'] = case['fail_on']
        pol['fail-on'] = '<% $.fo %>'
    if case['pause_before'] is not None:
        if case['form'] == 'lit':
            pol['pause-before'] = case['pause_before']
        else:
            inp['pb'] = case['pause_before']
            pol['pause-before'] = '<% $.pb %>'
    p = {'action': 'std.noop', 'on-success': ['ok_t'], 'on-error': ['err_t']}
    wf = {'input': [{k: v} for k, v in sorted(inp.items())] or None,
          'tasks': {'p': p, 'ok_t': {'action': 'std.noop'},
                    'err_t': {'action': 'std.noop'}}}
    if not wf['input']:
        del wf['input']
    if case['defaults'] and pol:
        # task-defaults apply to every task: keep `p` alone
        wf['task-defaults'] = dict(pol)
        wf['tasks'] = {'p': {'action': 'std.noop'}}
    else:
        p.update(pol)
        if case.get('defaults_too') and case['retry']:
            # the task's own retry (whatever its count, 0 included) wins
            # over a retry given in task-defaults
            wf['task-defaults'] = {'retry': {'count': 3, 'delay': 0}}
    return yaml.safe_dump({'version': '2.0', 'wf': wf},
                          default_flow_style=False, sort_keys=False), inp


def model(case):
    """Expected (attempt count, final state) when nothing times out and every
    attempt completes; None where the model does not decide."""
    cnt = case['retry']['count'] if case['retry'] else 0
    brk = case['retry']['break_on'] if case['retry'] else None
    cont = case['retry']['continue_on'] if case['retry'] else None
    fail_on = bool(case['fail_on'])
    k = 0
    while True:
        oc = case['attempts'][min(k, len(case['attempts']) - 1)]
        if oc[0] == 'never':
            return None
        state = 'SUCCESS' if oc[0] == 'ok' else 'ERROR'
        if state == 'SUCCESS' and fail_on:
            state = 'ERROR'
        retries_remain = k < cnt
        stop = (state == 'SUCCESS' and cont is None) or \
            (cont is not None and not cont)
        brk_now = state == 'ERROR' and bool(brk)
        if cnt == 0 or not retries_remain or brk_now or stop:
            return k + 1, state
        k += 1


def check_case(case, stats=None):
    from mv import sim, enginerun
    text, inp = render(case)
    sim.reset(salt=case.get('salt', 0))
    attempts = case['attempts']

    def outcome(tname, idx, attempt, info):
        if tname == 'p':
            oc = attempts[min(attempt, len(attempts) - 1)]
            if oc[0] == 'never':
                return ('never', None)
            return (oc[0], oc[1])
        return ('ok', 'a')

    sim.W.outcome = outcome
    sim.create_workflows(text)
    kind, val = sim.start_workflow('wf', inp)
    if kind != 'ok':
        return [{'kind': 'start-failed', 'detail': str(val)[:300],
                 'yaml': text.splitlines()}]
    wid = val.id
    sched = enginerun.Schedule(case.get('sched'))
    viol = []
    T0 = sim.T0
    ev = {'act_created': {}, 'act_done': {}, 'task_created': None,
          'succ_created': {}, 'p_states': [], 'race': False,
          'paused_seen': False, 'act_before_resume': False,
          'timer_noop_checked': 0, 'p_info': []}
    resumed = {'n': 0}
    prev = {'snap': None}

    def now():
        return (sim.now() - T0).total_seconds()

    def observe_snap(label):
        snap = sim.snapshot()
        t = now()
        ps = [x for x in snap['task'].values() if x['name'] == 'p']
        if ps:
            p = ps[0]
            if ev['task_created'] is None:
                ev['task_created'] = t
            if not ev['p_states'] or ev['p_states'][-1][1] != p['state']:
                ev['p_states'].append((t, p['state'], label))
                ev['p_info'].append((t, p['state'], p['state_info'] or ''))
            for a in snap['action'].values():
                if a['task_execution_id'] != p['id']:
                    continue
                if a['id'] not in ev['act_created']:
                    ev['act_created'][a['id']] = t
                    if snap['wf'][wid]['state'] == 'PAUSED' and \
                            case['pause_before'] and resumed['n'] == 0:
                        ev['act_before_resume'] = True
                if a['state'] in FINAL and a['id'] not in ev['act_done']:
                    ev['act_done'][a['id']] = t
        for x in snap['task'].values():
            if x['name'] in ('ok_t', 'err_t') and \
                    x['name'] not in ev['succ_created']:
                ev['succ_created'][x['name']] = t
        if snap['wf'][wid]['state'] == 'PAUSED':
            ev['paused_seen'] = True
        prev['snap'] = snap
        return snap

    observe_snap('start')
    budget = 600
    n = 0
    while n < budget:
        en = sim.enabled(early_clock=True)
        if not en:
            snap = prev['snap']
            if snap['wf'][wid]['state'] == 'PAUSED' and resumed['n'] < 2:
                resumed['n'] += 1
                sim.call(sim.rpc_clients.get_engine_client().resume_workflow,
                         wid)
                observe_snap('cmd:resume')
                continue
            break
        kinds = {c.kind for c in en}
        if 'clock' in kinds and 'act' in kinds:
            ev['race'] = True
        idx = sched.choose(en)
        ch = en[idx]
        before = prev['snap']
        rec = sim.fire(ch)
        n += 1
        after = observe_snap('%s:%s' % (rec['kind'], rec['label']))
        if rec['kind'] == 'job' and \
                rec['label'] == '_fail_task_if_incomplete':
            ev.setdefault('timer_times', []).append(now())
            pb = [x for x in before['task'].values() if x['name'] == 'p']
            if pb and pb[0]['state'] not in FINAL:
                ev['timer_hit_live'] = True
            if pb and pb[0]['state'] in FINAL:
                ev['timer_noop_checked'] += 1
                if _rows_changed(before, after):
                    viol.append({
                        'kind': 'timeout-timer-changed-completed-task',
                        'detail': {'state_before': pb[0]['state'],
                                   'changed': _rows_changed(before, after)}})
    snap = prev['snap']
    root = snap['wf'][wid]
    ps = [x for x in snap['task'].values() if x['name'] == 'p']
    m = model(case)
    timeout = case['timeout']
    n_att = len(ev['act_created'])
    cnt = case['retry']['count'] if case['retry'] else 0
    if case.get('invalid'):
        # an invalid evaluated value must fail the task, not hang
        if root['state'] not in FINAL:
            viol.append({'kind': 'invalid-policy-value-did-not-fail',
                         'detail': {'root': root['state'],
                                    'p': ps and ps[0]['state']}})
        return _finish(case, viol, stats, text, sched, ev, n_att)
    if not ps:
        viol.append({'kind': 'policy-task-missing', 'detail': {}})
        return _finish(case, viol, stats, text, sched, ev, n_att)
    p = ps[0]
    if root['state'] not in FINAL or p['state'] not in FINAL:
        pending_never = bool(sim.W.inflight)
        # an attempt that never completes: without timeout the task
        # legitimately stays open; with a timeout that already fired once
        # (and was followed by a retry) nothing more is promised
        if not (pending_never and (timeout is None
                                   or ev.get('timer_times'))):
            viol.append({'kind': 'not-final-at-quiescence',
                         'detail': {'root': root['state'],
                                    'p': p['state'],
                                    'states': ev['p_states'][-6:]}})
        return _finish(case, viol, stats, text, sched, ev, n_att)
    # attempts bound
    if n_att > cnt + 1:
        viol.append({'kind': 'more-attempts-than-count-plus-one',
                     'detail': {'attempts': n_att, 'count': cnt}})
    timed_out = 'Task timed out' in (p['state_info'] or '')
    timer_hit = ev.get('timer_hit_live', False) or any(
        lbl == 'job:_fail_task_if_incomplete'
        for (_, st, lbl) in ev['p_states'])
    if m is not None and not timed_out and not timer_hit \
            and timeout is None:
        exp_n, exp_state = m
        if n_att != exp_n:
            viol.append({'kind': 'wrong-number-of-attempts',
                         'detail': {'attempts': n_att, 'expected': exp_n}})
        if p['state'] != exp_state:
            viol.append({'kind': 'wrong-final-task-state',
                         'detail': {'state': p['state'],
                                    'expected': exp_state,
                                    'info': (p['state_info'] or '')[:80]}})
        if exp_state == 'ERROR' and case['fail_on'] and \
                case['attempts'][min(exp_n - 1, 5)][0] == 'ok' and \
                'fail-on' not in (p['state_info'] or ''):
            viol.append({'kind': 'fail-on-message-missing',
                         'detail': {'info': p['state_info']}})
    # every DELAYED period lasts at least the delay of the policy that
    # caused it (legacy scheduler: jobs are picked up to 1 s early by design)
    slack = 1.0 if not hasattr(sim.sched, '_heap') else 0.0
    for i, (t0_, st, info) in enumerate(ev['p_info']):
        if st != 'DELAYED' or i + 1 >= len(ev['p_info']) \
                or timeout is not None:
            continue
        dur = ev['p_info'][i + 1][0] - t0_
        nxt = ev['p_info'][i + 1]
        if 'Task timed out' in nxt[2] or any(
                t0_ <= tt <= nxt[0] for tt in ev.get('timer_times', [])):
            continue      # the timeout cut the delay short
        for key, name, val in (
                ("'retry' policy", 'retry-delay',
                 case['retry']['delay'] if case['retry'] else 0),
                ("'wait-before' policy", 'wait-before',
                 case['wait_before'] or 0),
                ("'wait-after' policy", 'wait-after',
                 case['wait_after'] or 0)):
            if key in info and dur + slack < val:
                viol.append({'kind': '%s-not-respected' % name,
                             'detail': {'waited': dur, 'delay': val}})
    # successors: the one for the final state exists, the other not
    want = 'ok_t' if p['state'] == 'SUCCESS' else 'err_t'
    other = 'err_t' if want == 'ok_t' else 'ok_t'
    single = case['defaults'] and any(
        case[k] is not None for k in ('retry', 'wait_before', 'wait_after',
                                      'timeout', 'fail_on', 'pause_before'))
    if single:
        pass
    elif want not in ev['succ_created']:
        viol.append({'kind': 'follow-up-task-lost',
                     'detail': {'expected': want, 'p': p['state']}})
    if other in ev['succ_created'] and not single:
        viol.append({'kind': 'wrong-follow-up-task-ran',
                     'detail': {'ran': other, 'p': p['state']}})
    # timeout: incomplete at expiry -> ERROR with the timeout message
    if timeout and timed_out and p['state'] != 'ERROR':
        viol.append({'kind': 'timed-out-task-not-error',
                     'detail': {'state': p['state']}})
    # pause-before
    if case['pause_before']:
        if not ev['paused_seen']:
            viol.append({'kind': 'pause-before-did-not-pause',
                         'detail': {}})
        # (with a timeout the timer may legitimately fail/retry the idle
        # task during the pause: tasks created before a pause may proceed)
        if ev['act_before_resume'] and case['timeout'] is None:
            viol.append({'kind': 'action-started-before-resume',
                         'detail': {}})
    for e in common.undeclared_errors(_Res(), server=True):
        viol.append({'kind': 'undeclared-error',
                     'detail': {k: e.get(k) for k in
                                ('type', 'msg', 'frame', 'where', 'label')}})
    return _finish(case, viol, stats, text, sched, ev, n_att)


class _Res(object):
    @property
    def server_errors(self):
        from mv import sim
        return sim.W.server_errors

    @property
    def errors(self):
        from mv import sim
        return sim.W.errors

    @property
    def swallowed(self):
        from mv import sim
        return sim.W.swallowed


def _rows_changed(a, b):
    from mv.history import _snap_diff
    return _snap_diff(a, b)


def _finish(case, viol, stats, text, sched, ev, n_att):
    if stats is not None:
        tg = ['form_' + case['form']]
        for k in ('retry', 'wait_before', 'wait_after', 'timeout', 'fail_on',
                  'pause_before'):
            if case[k] is not None and case[k] is not False:
                tg.append('has_' + k)
        if case['defaults']:
            tg.append('via_task_defaults')
        if case.get('invalid'):
            tg.append('invalid_value')
        if ev['race']:
            tg.append('timer_raced_result')
        if ev['timer_noop_checked']:
            tg.append('timer_after_completion_checked')
        nontriv = n_att >= 2 or ev['race'] or bool(
            case['pause_before'] or case['wait_after'] or case['fail_on'])
        stats.case(runner.fp([case, sched.taken]), nontriv, tg,
                   {'case': {k: v for k, v in case.items() if k != 'sched'},
                    'yaml': text.splitlines(), 'attempts_seen': n_att,
                    'p_states': ev['p_states'][:12]})
    seen = set()
    out = []
    for v in viol:
        if v['kind'] in seen:
            continue
        seen.add(v['kind'])
        v['yaml'] = text.splitlines()
        v['sched_taken'] = sched.taken
        v['p_states'] = ev['p_states'][:14]
        out.append(v)
    return out


def shard_main(shard, nshards, seed, tier, opts):
    from mv import sim, enginerun
    from hypothesis import strategies as st_
    from mv.gen.draw import HDraw
    st = runner.Stats()
    sched_type = common.shard_scheduler(shard)
    sim.boot(sched_type)

    @st_.composite
    def strat(draw):
        D = HDraw(draw)
        c = gen_case(D)
        c['sched'] = enginerun.gen_schedule(D, max_devs=8, horizon=60)
        return c

    fail = runner.drive(strat(), lambda c: check_case(c, st),
                        opts.get('examples', 60), seed * 1000 + shard,
                        time_budget=opts.get('time_budget'),
                        shrink_budget=opts.get('shrink_budget', 40), stats=st)
    if fail:
        fail['scheduler'] = sched_type
    out = {'stats': st.to_dict(), 'failures': [fail] if fail else []}
    if shard == 0:
        from mv.props import known
        out['known_hits'] = known.run_known(PROP)
    return out


def replay(path):
    from mv import sim
    f = common.replay_case(path)
    sim.boot(f.get('scheduler', 'default'))
    c = f['case']
    tk = f['violations'][0].get('sched_taken')
    if tk:
        c['sched'] = {'recorded': tk}
    return check_case(c)


def main(tier, seed):
    t0 = time.time()
    opts = {'examples': common.budget(tier, 140, 2500),
            'time_budget': common.budget(tier, 80, 1500),
            'shrink_budget': common.budget(tier, 40, 200)}
    results = runner.run_shards('mv.props.c08', 'shard_main', 16, seed, tier,
                                opts)
    stats = runner.Stats.merge([r['stats'] for r in results])
    herrs = [h for r in results for h in r['harness_errors']]
    failures = sorted([f for r in results for f in r['failures']],
                      key=lambda f: len(str(f)))
    hits = [h for r in results for h in r.get('known_hits', [])]
    return runner.finish(
        PROP, tier, seed, 'exploration', t0, stats, failures[:1], herrs, RULE,
        known_hits=hits,
        assumptions=['whole-second virtual clock (matches utc_now_sec)',
                     'legacy scheduler picks jobs up to one second early by '
                     'design; delays are checked against the job due time '
                     'the scheduler implementation documents'])
