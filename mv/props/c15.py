"""C15 Tenants are isolated: private data is invisible, others cannot modify
yours.

Exhaustive matrix: resource type x scope (private/public) x actor relation
(other project; member none/pending/accepted/rejected for workflows; admin)
x operation (REST read by id/name, list, update, delete, use; and the db-api
functions taking a caller-supplied identifier, called under the foreign
context).  Project A owns the fixtures (same names also exist in project B).
"""
import itertools
import time

from mv import runner
from mv.props import common
from mv.props import c16 as fx

PROP = 'C15'
RULE = ('matrix = resource type (workflow, workbook, action, environment, '
        'code source, dynamic action, cron trigger, event trigger, execution '
        '+ its task and action execution, member) x scope x actor relation '
        '(other project / member pending, accepted, rejected / admin / third project while another one is an accepted member / owner of same-named resources) x '
        'operation (REST get, list, update, delete, execute/use; db-api get, '
        'load, update, delete under the foreign context; expression '
        'functions). Every point is a case; non-trivial = the target '
        'resource exists and belongs to another project; enumerated '
        'completely')

# project ids have keystone's shape: the `project_id` query parameter of the
# list controllers only accepts uuid-like values
PA = 'aaaaaaaa-0000-4000-8000-00000000000a'
PB = 'bbbbbbbb-0000-4000-8000-00000000000b'
PC = 'cccccccc-0000-4000-8000-00000000000c'

PUBLIC_TYPES = ('workflow', 'workbook', 'action', 'environment',
                'code_source', 'dynamic_action', 'cron_trigger',
                'event_trigger')


def make_fixtures(owner, scope, tolerant=False):
    """All resource types as `owner` with the given scope.  tolerant: a
    refused creation (a workbook whose member names are taken by a public
    workbook of another project) is skipped; operations on that name then
    address the foreign public resource."""
    from mv import sim, enginerun
    from mistral.services import workbooks as wb_service
    from mistral.services import adhoc_actions
    from mistral.services import triggers
    db_api = sim.db_api
    f = {'scope': scope}
    sim.auth_context.set_ctx(owner)
    try:
        wfs = sim.create_workflows(fx.WF_TEXT % 'shared_wf', scope=scope)
        f['workflow'] = {'id': wfs[0].id, 'name': 'shared_wf'}
        try:
            wb_service.create_workbook_v2(fx.WB_TEXT % 'shared_wb',
                                          scope=scope)
        except Exception:
            if not tolerant:
                raise
            sim._cleanup_session()
            f['skipped'] = ['workbook']
        f['workbook'] = {'id': None, 'name': 'shared_wb'}
        adhoc_actions.create_actions(fx.ACT_TEXT % 'shared_act', scope=scope)
        f['action'] = {'name': 'shared_act'}
        with db_api.transaction():
            cs = db_api.create_code_source({
                'name': 'shared_cs', 'src': 'class A: pass', 'version': 1,
                'namespace': '', 'scope': scope})
            f['code_source'] = {'id': cs.id, 'name': 'shared_cs'}
            da = db_api.create_dynamic_action_definition({
                'name': 'shared_da', 'class_name': 'A',
                'code_source_id': cs.id, 'code_source_name': 'shared_cs',
                'namespace': '', 'scope': scope})
            f['dynamic_action'] = {'id': da.id, 'name': 'shared_da'}
            db_api.create_environment({'name': 'shared_env',
                                       'variables': {'a': 1},
                                       'scope': scope})
            f['environment'] = {'name': 'shared_env'}
        triggers.create_cron_trigger('shared_cron', 'shared_wf', {}, {},
                                     '* * * * *', None, None, None,
                                     scope=scope)
        with db_api.transaction():
            f['cron_trigger'] = {'name': 'shared_cron',
                                 'id': db_api.get_cron_trigger(
                                     'shared_cron').id}
        et = triggers.create_event_trigger('shared_et', 'ex', 'topic', 'ev',
                                           f['workflow']['id'], scope=scope)
        f['event_trigger'] = {'id': et.id}
    finally:
        sim.auth_context.set_ctx(sim.CTX)
    sim.W.outcome = lambda *a: ('never', None)
    sim.auth_context.set_ctx(owner)
    try:
        ex = sim.rpc_clients.get_engine_client().start_workflow(
            'shared_wf', wf_input={})
    finally:
        sim.auth_context.set_ctx(sim.CTX)
    enginerun.run_until_quiet(enginerun.Schedule({'policy': 'fifo'}), 200)
    snap = sim.snapshot()
    t = [x for x in snap['task'].values() if x['wf_ex_id'] == ex.id][0]
    a = [x for x in snap['action'].values()
         if x['task_execution_id'] == t['id']][0]
    f['execution'] = {'id': ex.id}
    f['task'] = {'id': t['id']}
    f['action_execution'] = {'id': a['id']}
    return f


def rest_ops(f):
    """(rtype, op, http, url, body, text, kind) kind: read|list|mutate|use"""
    wf = f['workflow']['id']
    ops = [
        ('workflow', 'get', 'GET', '/v2/workflows/%s' % wf, None, None,
         'read'),
        ('workflow', 'get_by_name', 'GET', '/v2/workflows/shared_wf', None,
         None, 'read'),
        ('workflow', 'list', 'GET', '/v2/workflows', None, None, 'list'),
        ('workflow', 'list_by_name', 'GET', '/v2/workflows?name=shared_wf',
         None, None, 'list'),
        ('workflow', 'update', 'PUT', '/v2/workflows?identifier=%s' % wf,
         None, (fx.WF_TEXT % 'shared_wf') + '\n# hacked\n', 'mutate'),
        ('workflow', 'delete', 'DELETE', '/v2/workflows/%s' % wf, None, None,
         'mutate'),
        ('workflow', 'execute', 'POST', '/v2/executions',
         {'workflow_id': wf}, None, 'use'),
        ('workflow', 'cron_on_it', 'POST', '/v2/cron_triggers',
         {'name': 'b_cron', 'workflow_id': wf, 'pattern': '* * * * *'}, None,
         'use'),
        ('workbook', 'get', 'GET', '/v2/workbooks/shared_wb', None, None,
         'read'),
        ('workbook', 'list', 'GET', '/v2/workbooks', None, None, 'list'),
        ('workbook', 'delete', 'DELETE', '/v2/workbooks/shared_wb', None,
         None, 'mutate'),
        ('action', 'get', 'GET', '/v2/actions/shared_act', None, None,
         'read'),
        ('action', 'list', 'GET', '/v2/actions?name=shared_act', None, None,
         'list'),
        ('action', 'delete', 'DELETE', '/v2/actions/shared_act', None, None,
         'mutate'),
        ('environment', 'get', 'GET', '/v2/environments/shared_env', None,
         None, 'read'),
        ('environment', 'list', 'GET', '/v2/environments', None, None,
         'list'),
        ('environment', 'update', 'PUT', '/v2/environments',
         {'name': 'shared_env', 'variables': '{"a": 666}'}, None, 'mutate'),
        ('environment', 'delete', 'DELETE', '/v2/environments/shared_env',
         None, None, 'mutate'),
        ('code_source', 'get', 'GET',
         '/v2/code_sources/%s' % f['code_source']['id'], None, None, 'read'),
        ('code_source', 'list', 'GET', '/v2/code_sources', None, None,
         'list'),
        ('code_source', 'update', 'PUT',
         '/v2/code_sources/%s' % f['code_source']['id'], None,
         'class Hacked: pass', 'mutate'),
        ('code_source', 'delete', 'DELETE',
         '/v2/code_sources/%s' % f['code_source']['id'], None, None,
         'mutate'),
        ('dynamic_action', 'get', 'GET',
         '/v2/dynamic_actions/%s' % f['dynamic_action']['id'], None, None,
         'read'),
        ('dynamic_action', 'list', 'GET', '/v2/dynamic_actions', None, None,
         'list'),
        ('dynamic_action', 'update', 'PUT', '/v2/dynamic_actions',
         {'id': f['dynamic_action']['id'], 'name': 'shared_da',
          'class_name': 'Hacked'}, None, 'mutate'),
        ('dynamic_action', 'delete', 'DELETE',
         '/v2/dynamic_actions/%s' % f['dynamic_action']['id'], None, None,
         'mutate'),
        ('cron_trigger', 'get', 'GET', '/v2/cron_triggers/shared_cron', None,
         None, 'read'),
        ('cron_trigger', 'list', 'GET', '/v2/cron_triggers', None, None,
         'list'),
        ('cron_trigger', 'delete', 'DELETE', '/v2/cron_triggers/shared_cron',
         None, None, 'mutate'),
        ('event_trigger', 'get', 'GET',
         '/v2/event_triggers/%s' % f['event_trigger']['id'], None, None,
         'read'),
        ('event_trigger', 'list', 'GET', '/v2/event_triggers', None, None,
         'list'),
        ('event_trigger', 'update', 'PUT',
         '/v2/event_triggers/%s' % f['event_trigger']['id'],
         {'name': 'hacked'}, None, 'mutate'),
        ('event_trigger', 'delete', 'DELETE',
         '/v2/event_triggers/%s' % f['event_trigger']['id'], None, None,
         'mutate'),
        ('execution', 'get', 'GET',
         '/v2/executions/%s' % f['execution']['id'], None, None, 'read'),
        ('execution', 'list', 'GET', '/v2/executions', None, None, 'list'),
        ('execution', 'tasks', 'GET',
         '/v2/executions/%s/tasks' % f['execution']['id'], None, None,
         'list'),
        ('execution', 'report', 'GET',
         '/v2/executions/%s/report' % f['execution']['id'], None, None,
         'read'),
        ('execution', 'pause', 'PUT',
         '/v2/executions/%s' % f['execution']['id'], {'state': 'PAUSED'},
         None, 'mutate'),
        ('execution', 'cancel', 'PUT',
         '/v2/executions/%s' % f['execution']['id'], {'state': 'CANCELLED'},
         None, 'mutate'),
        ('execution', 'describe', 'PUT',
         '/v2/executions/%s' % f['execution']['id'],
         {'description': 'hacked'}, None, 'mutate'),
        ('execution', 'delete', 'DELETE',
         '/v2/executions/%s?force=true' % f['execution']['id'], None, None,
         'mutate'),
        ('task', 'get', 'GET', '/v2/tasks/%s' % f['task']['id'], None, None,
         'read'),
        ('task', 'list', 'GET', '/v2/tasks', None, None, 'list'),
        ('task', 'actions', 'GET',
         '/v2/tasks/%s/action_executions' % f['task']['id'], None, None,
         'list'),
        ('action_execution', 'get', 'GET',
         '/v2/action_executions/%s' % f['action_execution']['id'], None,
         None, 'read'),
        ('action_execution', 'list', 'GET', '/v2/action_executions', None,
         None, 'list'),
        ('action_execution', 'complete', 'PUT',
         '/v2/action_executions/%s' % f['action_execution']['id'],
         {'state': 'SUCCESS', 'output': '{"x": "hacked"}'}, None, 'mutate'),
        ('action_execution', 'delete', 'DELETE',
         '/v2/action_executions/%s' % f['action_execution']['id'], None,
         None, 'mutate'),
        ('member', 'list', 'GET', '/v2/workflows/%s/members' % wf, None, None,
         'owner_only'),
        ('member', 'self_add', 'POST', '/v2/workflows/%s/members' % wf,
         {'member_id': PB}, None, 'owner_only'),
    ]
    # every collection once more with all_projects=true
    for (rtype, op, http, url, body, text, kind) in list(ops):
        if kind == 'list' and op == 'list' and '?' not in url:
            ops.append((rtype, 'list_all_projects', 'GET',
                        url + '?all_projects=true', None, None, 'list'))
            # ... and filtered by the owner's project id (with and without a
            # field projection): a filter is not an authorisation
            ops.append((rtype, 'list_owner_project', 'GET',
                        url + '?project_id=' + PA, None, None, 'list'))
            ops.append((rtype, 'list_owner_project_fields', 'GET',
                        url + '?project_id=' + PA + '&fields=id,name', None, None,
                        'list'))
    return ops


def _ids_in(data):
    """All 'id' / 'name' values in a list response."""
    out = set()
    if isinstance(data, dict):
        for v in data.values():
            if isinstance(v, list):
                for it in v:
                    if isinstance(it, dict):
                        out.add(it.get('id'))
                        out.add(it.get('name'))
    return out


def db_ops(f):
    """(rtype, fn, args, kind) for db-api functions with caller ids."""
    wf = f['workflow']
    return [
        ('workflow', 'get_workflow_definition', (wf['id'],), 'read'),
        ('workflow', 'get_workflow_definition', (wf['name'],), 'read'),
        ('workflow', 'get_workflow_definition_by_id', (wf['id'],), 'read'),
        ('workflow', 'load_workflow_definition', (wf['name'],), 'load'),
        ('workflow', 'update_workflow_definition',
         (wf['id'], {'definition': 'hacked'}), 'mutate'),
        ('workflow', 'delete_workflow_definition', (wf['id'],), 'mutate'),
        ('workbook', 'get_workbook', ('shared_wb', ''), 'read'),
        ('workbook', 'load_workbook', ('shared_wb', ''), 'load'),
        ('workbook', 'update_workbook',
         ('shared_wb', {'definition': 'hacked'}), 'mutate'),
        ('workbook', 'delete_workbook', ('shared_wb',), 'mutate'),
        ('action', 'get_action_definition', ('shared_act',), 'read'),
        ('action', 'load_action_definition', ('shared_act',), 'load'),
        ('action', 'update_action_definition',
         ('shared_act', {'definition': 'hacked'}), 'mutate'),
        ('action', 'delete_action_definition', ('shared_act',), 'mutate'),
        ('environment', 'get_environment', ('shared_env',), 'read'),
        ('environment', 'load_environment', ('shared_env',), 'load'),
        ('environment', 'update_environment',
         ('shared_env', {'variables': {'a': 666}}), 'mutate'),
        ('environment', 'delete_environment', ('shared_env',), 'mutate'),
        ('code_source', 'get_code_source', (f['code_source']['id'],), 'read'),
        ('code_source', 'load_code_source', (f['code_source']['id'],),
         'load'),
        ('code_source', 'update_code_source',
         (f['code_source']['id'], {'src': 'hacked'}), 'mutate'),
        ('code_source', 'delete_code_source', (f['code_source']['id'],),
         'mutate'),
        ('dynamic_action', 'get_dynamic_action_definition',
         (f['dynamic_action']['id'],), 'read'),
        ('dynamic_action', 'load_dynamic_action_definition',
         (f['dynamic_action']['id'],), 'load'),
        ('dynamic_action', 'update_dynamic_action_definition',
         (f['dynamic_action']['id'], {'class_name': 'Hacked'}), 'mutate'),
        ('dynamic_action', 'delete_dynamic_action_definition',
         (f['dynamic_action']['id'],), 'mutate'),
        ('cron_trigger', 'get_cron_trigger', ('shared_cron',), 'read'),
        ('cron_trigger', 'get_cron_trigger_by_id',
         (f['cron_trigger']['id'],), 'read'),
        ('cron_trigger', 'load_cron_trigger', ('shared_cron',), 'load'),
        ('cron_trigger', 'delete_cron_trigger', ('shared_cron',), 'mutate'),
        ('event_trigger', 'get_event_trigger', (f['event_trigger']['id'],),
         'read'),
        ('event_trigger', 'load_event_trigger', (f['event_trigger']['id'],),
         'load'),
        ('event_trigger', 'update_event_trigger',
         (f['event_trigger']['id'], {'name': 'hacked'}), 'mutate'),
        ('event_trigger', 'delete_event_trigger',
         (f['event_trigger']['id'],), 'mutate'),
        ('execution', 'get_workflow_execution', (f['execution']['id'],),
         'read'),
        ('execution', 'load_workflow_execution', (f['execution']['id'],),
         'load'),
        ('execution', 'update_workflow_execution',
         (f['execution']['id'], {'description': 'hacked'}), 'mutate'),
        ('execution', 'delete_workflow_execution', (f['execution']['id'],),
         'mutate'),
        ('task', 'get_task_execution', (f['task']['id'],), 'read'),
        ('task', 'load_task_execution', (f['task']['id'],), 'load'),
        ('task', 'update_task_execution',
         (f['task']['id'], {'state_info': 'hacked'}), 'mutate'),
        ('task', 'delete_task_execution', (f['task']['id'],), 'mutate'),
        ('action_execution', 'get_action_execution',
         (f['action_execution']['id'],), 'read'),
        ('action_execution', 'load_action_execution',
         (f['action_execution']['id'],), 'load'),
        ('action_execution', 'update_action_execution',
         (f['action_execution']['id'], {'description': 'hacked'}), 'mutate'),
        ('action_execution', 'delete_action_execution',
         (f['action_execution']['id'],), 'mutate'),
    ]


def run_block(scope, relation, st):
    """One (scope, relation) block: fresh fixtures per mutating operation."""
    from mv import sim, rest
    viol = []
    A = rest.make_ctx(PA)
    B = rest.make_ctx(PB, admin=(relation == 'admin'))
    if relation == 'bystander':
        # projB is an accepted member of A's workflow; the actor is a third
        # project that was never offered anything
        B = rest.make_ctx(PC)
    if relation in ('collision', 'collision_b_first'):
        return run_collision(scope, st, A, B, relation)

    def fresh():
        sim.reset()
        f = make_fixtures(A, scope)
        if relation in ('pending', 'accepted', 'rejected', 'bystander'):
            sim.auth_context.set_ctx(A)
            try:
                with sim.db_api.transaction():
                    sim.db_api.create_resource_member({
                        'resource_id': f['workflow']['id'],
                        'resource_type': 'workflow', 'member_id': PB,
                        'status': 'accepted' if relation == 'bystander'
                        else relation})
            finally:
                sim.auth_context.set_ctx(sim.CTX)
        # B owns resources with the same names (collisions)
        sim.auth_context.set_ctx(B)
        try:
            if relation != 'admin':
                sim.create_workflows(fx.WF_TEXT % 'b_only_wf')
        finally:
            sim.auth_context.set_ctx(sim.CTX)
        return f

    f = fresh()
    dirty = False
    for (rtype, op, http, url, body, text, kind) in rest_ops(f):
        if dirty:
            f = fresh()
            dirty = False
            # urls embed ids: rebuild the op for the new fixtures
            cand = [o for o in rest_ops(f) if o[0] == rtype and o[1] == op]
            (rtype, op, http, url, body, text, kind) = cand[0]
        visible = (relation == 'admin') or (
            scope == 'public' and rtype in PUBLIC_TYPES) or (
            relation == 'accepted' and rtype == 'workflow')
        before = rest.db_dump()
        n_rpc = len(sim.W.rpc_log)
        status, data = rest.request(B, http, url, body=body, text=text)
        after = rest.db_dump()
        changed = rest.dump_diff(before, after)
        case = {'layer': 'rest', 'type': rtype, 'op': op, 'scope': scope,
                'relation': relation, 'status': status}
        st.case(runner.fp(['rest', rtype, op, scope, relation]),
                relation != 'admin' or True,
                ['rest', 'type_' + rtype, 'kind_' + kind,
                 'relation_' + relation, 'scope_' + scope,
                 'status_%d' % status], case)
        if kind == 'read':
            if relation == 'admin':
                continue       # no read obligation is stated for admins
            if not visible and status not in (403, 404):
                viol.append({'kind': 'foreign-private-resource-readable',
                             'detail': dict(case, body=str(data)[:160])})
            if visible and status != 200:
                viol.append({'kind': 'shared-resource-not-readable',
                             'detail': dict(case, body=str(data)[:160])})
        elif kind == 'list':
            ids = _ids_in(data)
            target = {f[rtype].get('id'), f[rtype].get('name')} - {None} \
                if rtype in f else set()
            if rtype == 'execution' and op == 'tasks':
                if not visible and status == 200 and ids - {None}:
                    viol.append({'kind': 'foreign-execution-tasks-listed',
                                 'detail': case})
            elif rtype == 'task' and op == 'actions':
                if not visible and status == 200 and ids - {None}:
                    viol.append({'kind': 'foreign-task-actions-listed',
                                 'detail': case})
            else:
                seen = bool(ids & target)
                if not visible and seen:
                    viol.append({'kind': 'foreign-private-resource-listed',
                                 'detail': case})
                if visible and relation != 'admin' and status == 200 \
                        and not seen and rtype in PUBLIC_TYPES:
                    viol.append({'kind': 'shared-resource-not-listed',
                                 'detail': case})
        elif kind == 'mutate':
            if relation == 'admin':
                dirty = bool(changed)
                continue
            if 200 <= status < 300 or changed:
                viol.append({'kind': 'foreign-resource-modified',
                             'detail': dict(case, diff=changed)})
                dirty = True
            if len(sim.W.rpc_log) != n_rpc:
                st.counters['refused_mutation_reached_engine'] += 1
        elif kind == 'use':
            if relation == 'admin':
                dirty = bool(changed)
                continue
            if not visible:
                if 200 <= status < 300 or changed:
                    viol.append({'kind': 'foreign-private-workflow-used',
                                 'detail': dict(case, diff=changed)})
                    dirty = True
            else:
                if not (200 <= status < 300):
                    viol.append({'kind': 'shared-workflow-not-usable',
                                 'detail': dict(case,
                                                body=str(data)[:160])})
                else:
                    dirty = True
                    pid = (data or {}).get('project_id') \
                        if isinstance(data, dict) else None
                    if pid not in (None, B.project_id):
                        viol.append({'kind': 'created-row-wrong-project',
                                     'detail': dict(case, project=pid)})
        elif kind == 'owner_only':
            if relation == 'admin':
                dirty = bool(changed)
                continue
            if op == 'self_add' and (200 <= status < 300 or changed):
                viol.append({'kind': 'non-owner-added-a-member',
                             'detail': dict(case, diff=changed)})
                dirty = True
    # ---- db-api layer
    f = fresh()
    dirty = False
    for (rtype, fn, args, kind) in db_ops(f):
        if dirty:
            f = fresh()
            dirty = False
            (rtype, fn, args, kind) = [
                o for o in db_ops(f) if o[1] == fn and
                len(o[2]) == len(args) and o[0] == rtype][
                    0 if not (fn == 'get_workflow_definition'
                              and args[0] == 'shared_wf') else 1] \
                if True else None
        visible = (relation == 'admin') or (
            scope == 'public' and rtype in PUBLIC_TYPES) or (
            relation == 'accepted' and rtype == 'workflow')
        before = rest.db_dump()
        sim.auth_context.set_ctx(B)
        res = None
        err = None
        try:
            with sim.db_api.transaction():
                res = getattr(sim.db_api, fn)(*args)
                got = res is not None
        except Exception as e:
            err = type(e).__name__
            got = False
        finally:
            sim.auth_context.set_ctx(sim.CTX)
            sim._cleanup_session()
        after = rest.db_dump()
        changed = rest.dump_diff(before, after)
        case = {'layer': 'db_api', 'type': rtype, 'fn': fn, 'scope': scope,
                'relation': relation, 'error': err}
        st.case(runner.fp(['db', rtype, fn, str(args[0])[:6], scope,
                           relation]), True,
                ['db_api', 'type_' + rtype, 'kind_' + kind,
                 'relation_' + relation, 'scope_' + scope,
                 'raised' if err else 'returned'], case)
        if kind in ('read', 'load'):
            if relation == 'admin':
                continue
            if not visible and got:
                viol.append({'kind': 'db-api-returned-foreign-private-row',
                             'detail': case})
            if visible and not got:
                viol.append({'kind': 'db-api-hid-shared-row',
                             'detail': case})
            if changed:
                viol.append({'kind': 'db-api-read-changed-rows',
                             'detail': dict(case, diff=changed)})
        else:
            if relation == 'admin':
                dirty = bool(changed)
                continue
            if changed or err is None:
                viol.append({'kind': 'db-api-foreign-row-modified',
                             'detail': dict(case, diff=changed)})
                dirty = True
    # ---- expression functions in B's context
    f = fresh()
    from mistral import expressions as expr
    sim.auth_context.set_ctx(B)
    try:
        for e, label in (
                ("<% executions().where($.id = '" + f['execution']['id']
                 + "').len() %>", 'executions'),
                ("<% tasks('" + f['execution']['id'] + "').len() %>",
                 'tasks')):
            try:
                with sim.db_api.transaction():
                    val = expr.evaluate(e, {'__execution': {
                        'id': f['execution']['id']}})
            except Exception as ex_:
                val = 'exc:' + type(ex_).__name__
            case = {'layer': 'expression', 'fn': label, 'scope': scope,
                    'relation': relation, 'value': str(val)[:60]}
            st.case(runner.fp(['expr', label, scope, relation]), True,
                    ['expression', 'relation_' + relation], case)
            if relation != 'admin' and isinstance(val, int) and val > 0:
                viol.append({
                    'kind': 'expression-function-saw-foreign-execution',
                    'detail': case})
    finally:
        sim.auth_context.set_ctx(sim.CTX)
        sim._cleanup_session()
    return viol


def _owned(dump, project):
    tag = '"%s"' % project
    return {t: [r for r in rows if tag in r] for t, rows in dump.items()}


def run_collision(scope, st, A, B, relation='collision'):
    """Project B owns resources with the same names as A's (A's have the
    given scope, B's are private).  Whatever B does by name or by its own
    ids must leave every row of A untouched, must not hand out A's private
    rows, and what B creates belongs to B."""
    from mv import sim, rest
    viol = []

    def fresh():
        sim.reset()
        if relation == 'collision':
            fa = make_fixtures(A, scope)
            # B now creates resources of its own under the same names
            # (workbook members included): whatever is refused or accepted,
            # A's rows must stay as they are
            before = rest.db_dump()
            fb = make_fixtures(B, 'private', tolerant=True)
            a_changed = rest.dump_diff(_owned(before, PA),
                                       _owned(rest.db_dump(), PA))
            st.case(runner.fp(['create-under-taken-names', scope]), True,
                    ['creation_under_taken_names', 'scope_' + scope])
            if a_changed and not any(
                    v['kind'] == 'creating-own-resources-changed-foreign-rows'
                    for v in viol):
                viol.append({
                    'kind': 'creating-own-resources-changed-foreign-rows',
                    'detail': {'layer': 'services', 'type': 'all',
                               'op': 'create', 'scope': scope,
                               'relation': relation, 'diff': a_changed[:6]}})
        else:
            # B's rows come first in every table
            fb = make_fixtures(B, 'private')
            fa = make_fixtures(A, scope, tolerant=True)
        return fa, fb

    fa, fb = fresh()
    ops = [o for o in rest_ops(fb)]
    i = 0
    dirty = False
    while i < len(ops):
        if dirty:
            fa, fb = fresh()
            ops = [o for o in rest_ops(fb)]
            dirty = False
        (rtype, op, http, url, body, text, kind) = ops[i]
        i += 1
        if kind == 'owner_only':
            continue
        before = rest.db_dump()
        status, data = rest.request(B, http, url, body=body, text=text)
        after = rest.db_dump()
        a_changed = rest.dump_diff(_owned(before, PA),
                                   _owned(after, PA))
        changed = rest.dump_diff(before, after)
        dirty = bool(changed)
        case = {'layer': 'rest', 'type': rtype, 'op': op, 'scope': scope,
                'relation': relation, 'status': status}
        st.case(runner.fp(['rest', rtype, op, scope, relation]), True,
                ['rest', 'type_' + rtype, 'kind_' + kind,
                 'relation_' + relation, 'scope_' + scope,
                 'status_%d' % status], case)
        if a_changed:
            viol.append({'kind': 'own-named-operation-changed-foreign-rows',
                         'detail': dict(case, diff=a_changed)})
        if kind == 'read' and scope == 'private' and status == 200 and \
                isinstance(data, dict):
            if data.get('project_id') not in (None, PB):
                viol.append({'kind': 'foreign-private-resource-readable',
                             'detail': dict(case,
                                            project=data.get('project_id'))})
        if kind == 'list' and scope == 'private' and isinstance(data, dict):
            for v in data.values():
                if isinstance(v, list):
                    for it in v:
                        if isinstance(it, dict) and it.get(
                                'project_id') == PA:
                            viol.append({
                                'kind': 'foreign-private-resource-listed',
                                'detail': case})
    # db-api by name under B
    fa, fb = fresh()
    dirty = False
    for k, (rtype, fn, args, kind) in enumerate(db_ops(fb)):
        if dirty:
            fa, fb = fresh()
            (rtype, fn, args, kind) = db_ops(fb)[k]
            dirty = False
        before = rest.db_dump()
        sim.auth_context.set_ctx(B)
        res, err, proj = None, None, None
        try:
            with sim.db_api.transaction():
                res = getattr(sim.db_api, fn)(*args)
                proj = getattr(res, 'project_id', None)
        except Exception as e:
            err = type(e).__name__
        finally:
            sim.auth_context.set_ctx(sim.CTX)
            sim._cleanup_session()
        after = rest.db_dump()
        a_changed = rest.dump_diff(_owned(before, PA),
                                   _owned(after, PA))
        dirty = bool(rest.dump_diff(before, after))
        case = {'layer': 'db_api', 'type': rtype, 'fn': fn, 'scope': scope,
                'relation': relation, 'error': err}
        st.case(runner.fp(['db', rtype, fn, str(args[0])[:6], scope,
                           relation]), True,
                ['db_api', 'type_' + rtype, 'kind_' + kind,
                 'relation_' + relation, 'scope_' + scope,
                 'raised' if err else 'returned'], case)
        if a_changed:
            viol.append({'kind': 'own-named-operation-changed-foreign-rows',
                         'detail': dict(case, diff=a_changed)})
        if kind in ('read', 'load') and scope == 'private' and \
                proj not in (None, PB):
            viol.append({'kind': 'db-api-returned-foreign-private-row',
                         'detail': dict(case, project=proj)})
    return viol


BLOCKS = [(s, r) for s in ('private', 'public')
          for r in ('none', 'pending', 'accepted', 'rejected', 'admin',
                    'bystander', 'collision', 'collision_b_first')]


def shard_main(shard, nshards, seed, tier, opts):
    from mv import rest
    st = runner.Stats()
    st.max_samples = 2
    rest.boot(auth_enable=True)
    # code sources / dynamic actions are admin-only by default policy:
    # open them so that tenancy (not policy) decides
    rest.allow([n for n in list(rest.rules())
                if n.startswith(('code_sources:', 'dynamic_actions:'))
                and 'all_projects' not in n])
    viol = []
    for i, (scope, relation) in enumerate(BLOCKS):
        if i % nshards != shard:
            continue
        viol.extend(run_block(scope, relation, st))
    seen = {}
    for v in viol:
        d = v['detail']
        k = (v['kind'], d.get('type'), d.get('op') or d.get('fn'))
        seen.setdefault(k, v)
    failures = [{'case': v['detail'], 'violations': [v]}
                for v in seen.values()]
    return {'stats': st.to_dict(), 'failures': failures}


def classify(f, known):
    v = f['violations'][0]
    d = v['detail']
    for k in known:
        sig = k.get('match') or {}
        if sig.get('kind') == v['kind'] and d.get('type') in sig.get(
                'types', []) and d.get('scope') in sig.get('scopes', []):
            return k
    return None


def replay(path):
    from mv import rest
    rest.boot(auth_enable=True)
    f = common.replay_case(path)
    d = f['case']
    st = runner.Stats()
    viol = run_block(d['scope'], d['relation'], st)
    kind = f['violations'][0]['kind']
    return [v for v in viol if v['kind'] == kind and
            v['detail'].get('type') == d.get('type')]


def main(tier, seed):
    t0 = time.time()
    results = runner.run_shards('mv.props.c15', 'shard_main', 16, seed, tier,
                                {}, procs=16)
    stats = runner.Stats.merge([r['stats'] for r in results], max_samples=8)
    herrs = [h for r in results for h in r['harness_errors']]
    failures = [f for r in results for f in r['failures']]
    known = runner.known_for(PROP)
    hits, unknown = {}, []
    for f in failures:
        k = classify(f, known)
        if k:
            hits.setdefault(k['id'], k['what'])
        else:
            unknown.append(f)
    unknown.sort(key=lambda f: len(str(f)))
    return runner.finish(
        PROP, tier, seed, 'exploration', t0, stats, unknown[:6], herrs, RULE,
        known_hits=['%s: %s' % kv for kv in hits.items()],
        assumptions=['Keystone replaced by a stub authenticator and stub '
                     'trusts; the acting context is injected; project A owns '
                     'the fixtures, project B acts'],
        exhaustive=True)
