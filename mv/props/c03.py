"""C03 Execution lifecycle is respected and finished results are final.

Generated histories: engine events of a generated (possibly nested,
with-items, async) program interleaved with operator commands (pause, resume,
stop with each state, rerun, skip, external action updates, late results) at
drawn points.  Invariants over the compare-and-swap log and the committed
rows after every step, against the transition table of the property text.
"""
import time

from mv import runner
from mv.props import common

PROP = 'C03'
RULE = ('history = generated program (direct/nested/with-items/async) + '
        'outcomes + schedule + plan of <=5 operator commands at drawn steps '
        '(leftover commands are issued after quiescence: late results); '
        'non-trivial = >=1 command issued while >=1 engine event was pending, '
        'or a late result / external update delivered to a completed action; '
        'distinct = (command kind, state of the target when issued, program '
        'hash, choices taken)')

def _kinds():
    from mv import history
    return history.CMD_KINDS + ('orphan_update', 'orphan_update',
                                'lose_cas', 'lose_cas')


WF_ALLOWED = {
    ('IDLE', 'RUNNING'),
    ('RUNNING', 'PAUSED'), ('RUNNING', 'SUCCESS'), ('RUNNING', 'ERROR'),
    ('RUNNING', 'CANCELLED'),
    ('PAUSED', 'RUNNING'), ('PAUSED', 'ERROR'), ('PAUSED', 'CANCELLED'),
}
FINAL = ('SUCCESS', 'ERROR', 'CANCELLED')


def check_history(h, stats=None, case=None):
    res = h.res
    viol = []
    if res.start_error is not None:
        return viol
    snaps = h.snaps
    # which steps are rerun/skip commands, and on which workflow trees
    rerun_steps = {}
    for rec in h.issued:
        if rec.get('cmd') in ('rerun', 'skip') and not rec.get('skipped'):
            rerun_steps[rec['step']] = rec
    # ancestors map from the final snapshot (wf -> parent wf)
    final = res.snap
    parent_wf = {}
    for w in final['wf'].values():
        te = w['task_execution_id']
        if te and te in final['task']:
            parent_wf[w['id']] = final['task'][te]['wf_ex_id']

    def in_rerun_scope(wid, rec):
        """Is wid the rerun task's workflow or one of its ancestors?"""
        cur = rec.get('wf_ex_id')
        seen = set()
        while cur and cur not in seen:
            if cur == wid:
                return True
            seen.add(cur)
            cur = parent_wf.get(cur)
        return False

    # ---- compare-and-swap log: every individual workflow state change
    wf_ids = set(final['wf'])
    for c in res.cas:
        if c['fn'] != 'update_workflow_execution_state' or not c['matched']:
            continue
        pair = (c['from'], c['to'])
        if pair[0] == pair[1] or pair in WF_ALLOWED:
            continue
        ev = c.get('event') or (None, None, None)
        if pair[0] in ('ERROR', 'CANCELLED') and pair[1] == 'RUNNING':
            rec = rerun_steps.get(ev[0])
            if rec is not None and in_rerun_scope(c['id'], rec):
                continue
        viol.append({'kind': 'illegal-workflow-transition',
                     'detail': {'from': pair[0], 'to': pair[1],
                                'event': list(ev)}})
    # ---- lost compare-and-swap (injected): the loser must leave the row
    # exactly as the concurrent stop committed it
    inj_by_step = {}
    for c in res.cas:
        if c.get('injected'):
            inj_by_step[(c.get('event') or (None,))[0]] = c
    if stats is not None and inj_by_step:
        stats.counters['lost_cas_injected'] += len(inj_by_step)
    for step, label, snap in snaps:
        c = inj_by_step.get(step)
        if c is None:
            continue
        w = snap['wf'].get(c['id'])
        if w is None:
            continue
        if w['state'] != c['to'] or (w['output'] or {}) != c['output'] \
                or w['state_info'] != c['output']['result']:
            viol.append({'kind': 'cas-loser-changed-the-finished-execution',
                         'detail': {'winner_state': c['to'],
                                    'winner_output': c['output'],
                                    'state': w['state'],
                                    'output': str(w['output'])[:200],
                                    'state_info': str(w['state_info'])[:100],
                                    'step': step, 'event': label}})
    # ---- committed rows after every step
    trace_by_step = {r['step']: r for r in res.trace}
    prev = None
    accepted_count = {}
    completions = {}
    for step, label, snap in snaps:
        if prev is not None:
            rer = rerun_steps.get(step)
            for wid, w in snap['wf'].items():
                p = prev['wf'].get(wid)
                if p is None:
                    continue
                if p['state'] != w['state']:
                    # the committed change must be the composition of the
                    # individual (already validated) compare-and-swap steps
                    # made during this event
                    chain = [(c['from'], c['to']) for c in res.cas
                             if c['fn'] == 'update_workflow_execution_state'
                             and c['matched'] and c['id'] == wid
                             and (c.get('event') or (None,))[0] == step]
                    ok = bool(chain) and chain[0][0] == p['state'] and \
                        chain[-1][1] == w['state'] and all(
                            chain[i][1] == chain[i + 1][0]
                            for i in range(len(chain) - 1))
                    if not ok:
                        viol.append({
                            'kind': 'workflow-state-changed-outside-cas',
                            'detail': {'from': p['state'], 'to': w['state'],
                                       'step': step, 'event': label,
                                       'cas_chain': chain}})
                left_and_back = any(
                    c['fn'] == 'update_workflow_execution_state'
                    and c['matched'] and c['id'] == wid
                    and (c.get('event') or (None,))[0] == step
                    for c in res.cas)
                # (an execution that a rerun / skip command took out of its
                # final state and that finished again inside the same event
                # has legitimately a new output; each of its moves is
                # validated through the compare-and-swap log above)
                if p['state'] in FINAL and p['state'] == w['state'] and \
                        p['output'] != w['output'] and not left_and_back:
                    viol.append({'kind': 'finished-workflow-output-changed',
                                 'detail': {'state': w['state'],
                                            'step': step, 'event': label,
                                            'before': str(p['output'])[:200],
                                            'after': str(w['output'])[:200]}})
            for tid, t in snap['task'].items():
                p = prev['task'].get(tid)
                if p is None:
                    continue
                if p['state'] == 'SUCCESS' and t['state'] != 'SUCCESS':
                    if t.get('spec_join') is not None and \
                            t['state'] in ('WAITING', 'RUNNING'):
                        if stats:
                            stats.counters[
                                'known_shape_join_retrigger_seen'] += 1
                        continue
                    viol.append({'kind': 'succeeded-task-changed-state',
                                 'detail': {'task': t['name'],
                                            'to': t['state'], 'step': step,
                                            'event': label}})
                if p['state'] in ('ERROR', 'CANCELLED') and \
                        t['state'] != p['state'] and rer is None and \
                        not _rerun_continuation(trace_by_step.get(step), tid):
                    # finished results are final: a failed or cancelled task
                    # is revived only by an explicit rerun / skip command
                    # (of itself or, for a parent task, of a descendant)
                    if t.get('spec_join') is not None and \
                            t['state'] in ('WAITING', 'RUNNING'):
                        if stats:
                            stats.counters[
                                'known_shape_join_retrigger_seen'] += 1
                        continue
                    viol.append({'kind': 'finished-task-left-final-state',
                                 'detail': {'task': t['name'],
                                            'from': p['state'],
                                            'to': t['state'], 'step': step,
                                            'event': label}})
            for aid, a in snap['action'].items():
                p = prev['action'].get(aid)
                if p is None:
                    if a['accepted']:
                        accepted_count[aid] = 1
                    if a['state'] in FINAL:
                        completions[aid] = 1
                    continue
                # a result is accepted when the action enters a final state
                # (or when a final action's output is replaced)
                if (a['state'] in FINAL and p['state'] not in FINAL) or (
                        a['state'] in FINAL and p['state'] in FINAL and
                        (a['output'] != p['output']
                         or a['state'] != p['state'])):
                    completions[aid] = completions.get(aid, 0) + 1
                    if completions[aid] > 1:
                        viol.append({
                            'kind': 'action-result-accepted-twice',
                            'detail': {'action': a['name'],
                                       'from': p['state'], 'to': a['state'],
                                       'step': step, 'event': label,
                                       'before': str(p['output'])[:100],
                                       'after': str(a['output'])[:100]}})
                if a['accepted'] and not p['accepted']:
                    accepted_count[aid] = accepted_count.get(aid, 0) + 1
            # sub-workflow executions are "actions" of their parent task
        else:
            for aid, a in snap['action'].items():
                if a['accepted']:
                    accepted_count[aid] = 1
        prev = snap
    # ---- error discipline for engine events (commands may be refused)
    for e in common.undeclared_errors(res):
        if e.get('type') == 'ValueError' and 'already completed' in (
                e.get('msg') or ''):
            continue   # the declared rejection of a duplicate result
        viol.append({'kind': 'undeclared-error-in-engine-event',
                     'detail': {k: e.get(k) for k in
                                ('type', 'msg', 'frame', 'where', 'label')}})
    # de-duplicate
    seen = set()
    out = []
    for v in viol:
        k = (v['kind'], str(v['detail'].get('from')),
             str(v['detail'].get('to')))
        if k not in seen:
            seen.add(k)
            out.append(v)
    return out


def _rerun_continuation(rec, tid):
    """Is this event the start_task message a rerun / skip command sent for
    the task (the command itself only queues it)?"""
    if not rec or rec.get('kind') != 'msg':
        return False
    kw = rec.get('kw') or {}
    return rec.get('label', '').startswith('start_task') and \
        kw.get('task_ex_id') == tid and bool(kw.get('rerun'))


def check_case(case, stats=None):
    from mv import history
    from mv.gen import workflows as G
    c = dict(case)
    c['yaml'] = G.render_all(case['prog'])
    h = history.run_history(c, observe=True)
    viol = check_history(h, stats, case)
    if stats is not None and h.res.start_error is None:
        tg = G.tags(case['prog'], case['outcomes'])
        nontriv = False
        kinds = set()
        for rec in h.issued:
            if rec.get('skipped'):
                continue
            tg.append('cmd_' + rec['cmd'])
            tgt = rec.get('target') or (None,) * 4
            kinds.add((rec['cmd'], tgt[3], rec.get('state')))
            if rec.get('pending_events', 0) >= 1:
                nontriv = True
            if rec['cmd'] in ('late_result', 'late_update', 'revive',
                              'orphan_update', 'lose_cas') or (
                    rec['cmd'] == 'action_update' and tgt[3] in FINAL):
                nontriv = True
            if rec.get('result') == 'exc':
                tg.append('cmd_refused')
        stats.case(runner.fp([sorted(map(str, kinds)), case['prog'],
                              h.res.sched_taken]), nontriv, sorted(set(tg)),
                   common.sample_of(c, h.res, {
                       'issued': [{k: v for k, v in r.items()
                                   if k in ('cmd', 'target', 'state', 'step',
                                            'result', 'exc', 'skipped')}
                                  for r in h.issued]}))
        if h.res.start_error is not None:
            stats.counters['start_refused'] += 1
    for v in viol:
        v['yaml'] = c['yaml'].splitlines()
        v['issued'] = [{k: vv for k, vv in r.items()
                        if k in ('cmd', 'target', 'state', 'step', 'result',
                                 'exc', 'skipped', 'reset')}
                       for r in h.issued]
    return viol


def strategy(max_tasks=6, max_cmds=5, kinds=None, feats=None):
    from hypothesis import strategies as st
    from mv.gen import workflows as G
    from mv.gen.draw import HDraw
    from mv import enginerun, history

    @st.composite
    def strat(draw):
        D = HDraw(draw)
        F = feats or G.feats(with_items=True, async_actions=True,
                             async_timeout_p=0.5, async_p=0.25,
                             cycles=False, expr_failures=False)
        if D.bool(0.5):
            prog, outc = G.gen_nested(D, F, max_tasks)
        else:
            prog, outc = G.gen_direct(D, F, max_tasks)
        return {'prog': prog, 'outcomes': outc, 'input': {},
                'sched': enginerun.gen_schedule(D, max_devs=5),
                'salt': D.int(0, 20),
                'plan': history.gen_plan(D, max_cmds=max_cmds, horizon=45,
                                         kinds=kinds or _kinds())}
    return strat()


def shard_main(shard, nshards, seed, tier, opts):
    from mv import sim
    st = runner.Stats()
    sched_type = common.shard_scheduler(shard)
    sim.boot(sched_type)
    fail = runner.drive(strategy(opts.get('max_tasks', 6),
                                 opts.get('max_cmds', 5)),
                        lambda c: check_case(c, st),
                        opts.get('examples', 40), seed * 1000 + shard,
                        time_budget=opts.get('time_budget'),
                        shrink_budget=opts.get('shrink_budget', 40), stats=st)
    if fail:
        fail['scheduler'] = sched_type
    out = {'stats': st.to_dict(), 'failures': [fail] if fail else []}
    if shard == 0:
        from mv.props import known
        out['known_hits'] = known.run_known(PROP)
    return out


def replay(path):
    from mv import sim
    f = common.replay_case(path)
    sim.boot(f.get('scheduler', 'default'))
    return check_case(f['case'])


def main(tier, seed):
    t0 = time.time()
    opts = {'examples': common.budget(tier, 45, 1500),
            'max_tasks': common.budget(tier, 6, 9),
            'max_cmds': common.budget(tier, 5, 8),
            'time_budget': common.budget(tier, 80, 1500),
            'shrink_budget': common.budget(tier, 30, 150)}
    results = runner.run_shards('mv.props.c03', 'shard_main', 16, seed, tier,
                                opts)
    stats = runner.Stats.merge([r['stats'] for r in results])
    herrs = [h for r in results for h in r['harness_errors']]
    failures = sorted([f for r in results for f in r['failures']],
                      key=lambda f: len(str(f)))
    hits = [h for r in results for h in r.get('known_hits', [])]
    return runner.finish(
        PROP, tier, seed, 'exploration', t0, stats, failures[:1], herrs, RULE,
        known_hits=hits,
        assumptions=['transition table taken from the property text, not '
                     'from states.py',
                     'state changes written and overwritten inside one '
                     'transaction are seen through the compare-and-swap log '
                     'only',
                     'commands are issued through the engine RPC client as '
                     'the REST controllers do, mirroring the REST-side '
                     'guard that only ERROR tasks can be rerun/skipped'])
