"""C12 Rerun or skip of a failed task resumes the run correctly.

Differential: run A executes a generated program whose outcome assignment
makes a task fail without being handled (the run ends ERROR), then reruns
that task with a new outcome (or skips it) and continues to quiescence; run
B executes the same program with the new outcome from the start.  The
canonical final rows must agree (the rerun task's superseded action
executions aside).  Right after the command the task, its workflow and all
enclosing workflows / parent tasks must be RUNNING.  Tasks that are not in
ERROR cannot be rerun (refusal + unchanged rows).
"""
import time

from mv import runner
from mv.props import common

PROP = 'C12'
FINAL = ('SUCCESS', 'ERROR', 'CANCELLED')
RULE = ('case = program (direct / nested / with-items / join downstream) '
        'whose assignment lets one task fail unhandled; at quiescence: '
        'rerun(reset on/off) with a new outcome, or skip; optional second '
        'rerun; compared with the run that had the new outcome from the '
        'start.  Non-trivial = rerun of a task that is upstream of a join, '
        'inside a sub-workflow, a with-items task, or a repeated rerun; '
        'distinct = hash(program, task, command, new outcome, choices)')


def _strip(rows, names):
    """Drop action lists of the rerun tasks (superseded attempts stay)."""
    out = {'wf': rows['wf'], 'task': []}
    for r in rows['task']:
        r = list(r)
        if r[1] in names:
            acts = [a for a in r[5] if a[2]]     # accepted only
            r[5] = tuple(acts)
        out['task'].append(tuple(r))
    out['task'].sort()
    return out


def check_case(case, stats=None):
    from mv import history, enginerun, sim
    from mv.gen import workflows as G
    c = dict(case)
    c['yaml'] = G.render_all(case['prog'])
    c['plan'] = []
    viol = []
    # ---- run A, phase 1
    h = history.run_history(c, observe=False)
    res = h.res
    if res.start_error is not None or not res.quiescent:
        return []
    snap = res.snap
    root = snap['wf'][res.wf_ex_id]
    errs = [t for t in snap['task'].values() if t['state'] == 'ERROR']
    live = False
    if root['state'] == 'RUNNING' and errs and sim.W.inflight and \
            case.get('async_parent'):
        # a parallel branch (asynchronous action) keeps the root running:
        # rerun while the enclosing workflow is still active
        live = True
    if (root['state'] != 'ERROR' and not live) or not errs:
        if stats:
            stats.counters['skipped_run_did_not_fail'] += 1
        # negative case: a non-ERROR task cannot be rerun via the API guard;
        # at engine level a SUCCESS task must be refused and change nothing
        return _negative(case, c, h, stats)
    # the failure must be "natural": nothing ran because of it
    if any(t['error_handled'] or t['next_tasks'] for t in errs):
        if stats:
            stats.counters['skipped_error_was_handled'] += 1
        return []
    # choose the task to rerun: the deepest ERROR task whose action failed
    acts = snap['action']
    cands = [t for t in errs if any(
        a['task_execution_id'] == t['id'] and a['state'] == 'ERROR'
        for a in acts.values())]
    if not cands:
        if stats:
            stats.counters['skipped_no_action_failure'] += 1
        return []
    if len(cands) != 1:
        # several independent failures: rerunning one of them cannot make
        # the run equal to the all-new-outcomes reference
        if stats:
            stats.counters['skipped_several_failed_tasks'] += 1
        return []
    cands.sort(key=lambda t: (t['created_at'], t['id']))
    T = cands[case.get('pick', 0) % len(cands)]
    tname = T['name']
    mode = case.get('mode', 'rerun')
    inner_name = tname
    outer = False
    if mode == 'rerun' and case.get('salt', 0) % 2 == 1 and \
            not case.get('repeat'):
        # every second case in which the failed task sits in a child
        # execution: rerun the *parent task* (the task that called the
        # sub-workflow) instead; a new child execution is started and the
        # failed one is superseded
        pw = snap['wf'][T['wf_ex_id']]
        pt = pw['task_execution_id']
        if pt and snap['task'][pt]['state'] == 'ERROR' and \
                not snap['task'][pt].get('spec_with_items'):
            T = snap['task'][pt]
            tname = T['name']
            outer = True
    new = case.get('new', ['ok', 'a'])
    is_wi = T.get('spec_with_items')
    reset = bool(case.get('reset', True)) or not is_wi
    cl = sim.rpc_clients.get_engine_client()
    sched = enginerun.Schedule(case.get('sched2') or {'policy': 'fifo'})
    reruns = 0
    tags = []
    for attempt in range(1 + int(case.get('repeat', 0))):
        cur = sim.snapshot()
        t_now = cur['task'][T['id']]
        if t_now['state'] != 'ERROR':
            break
        outcome_now = ['err', 'again'] if (attempt == 0 and
                                           case.get('repeat')) else new
        if outer:
            h.om.outcomes[inner_name] = [outcome_now]
        elif is_wi:
            h.om.outcomes[tname] = [['items', {}, outcome_now]]
        else:
            h.om.outcomes[tname] = [outcome_now]
        r = sim.call(cl.rerun_workflow, T['id'], reset=reset,
                     skip=(mode == 'skip'))
        reruns += 1
        if r[0] != 'ok':
            viol.append({'kind': 'rerun-of-error-task-refused',
                         'detail': {'task': tname, 'exc': str(r[1])[:200]}})
            break
        after = sim.snapshot()
        # task, its workflow and all ancestors RUNNING (skip: task SKIPPED)
        ta = after['task'][T['id']]
        want = 'SKIPPED' if mode == 'skip' else 'RUNNING'
        if ta['state'] != want and not (mode == 'rerun' and
                                         ta['state'] in FINAL + ('DELAYED',)):
            viol.append({'kind': 'task-not-%s-after-command' % want.lower(),
                         'detail': {'task': tname, 'state': ta['state']}})
        wid = T['wf_ex_id']
        chain = []
        while wid:
            w = after['wf'][wid]
            chain.append((w['name'], w['state']))
            if mode == 'rerun' and w['state'] != 'RUNNING':
                viol.append({'kind': 'enclosing-workflow-not-running',
                             'detail': {'chain': chain}})
                break
            pt = w['task_execution_id']
            if not pt:
                break
            pte = after['task'][pt]
            if mode == 'rerun' and pte['state'] != 'RUNNING':
                viol.append({'kind': 'parent-task-not-running',
                             'detail': {'task': pte['name'],
                                        'state': pte['state']}})
                break
            wid = pte['wf_ex_id']
        paused_wf = None
        if mode == 'rerun' and case.get('salt', 0) % 4 == 2:
            # the operator pauses the task's workflow (or the root) while
            # the new attempt is in flight; it completes during the pause
            paused_wf = T['wf_ex_id'] if case.get('pick', 0) % 2 == 0 \
                else res.wf_ex_id
            pr = sim.call(cl.pause_workflow, paused_wf)
            if pr[0] != 'ok':
                paused_wf = None
        enginerun.run_until_quiet(sched, 800)
        if paused_wf is not None:
            tags.append('paused_during_rerun')
            for _ in range(4):
                cur = sim.snapshot()
                still = [w for w in cur['wf'].values()
                         if w['state'] == 'PAUSED']
                if not still:
                    break
                still.sort(key=lambda w: (w['task_execution_id'] is not None,
                                          w['created_at'], w['id']))
                sim.call(cl.resume_workflow, still[0]['id'])
                enginerun.run_until_quiet(sched, 800)
        if mode == 'skip':
            break
    for _round in range(4):
        if not sim.W.inflight:
            break
        for aid in sorted(sim.W.inflight):
            sim.W.inflight.pop(aid, None)
            sim.call(cl.on_action_complete, aid,
                     sim.ml_actions.Result(data='async-done'))
        enginerun.run_until_quiet(sched, 800)
    final = sim.snapshot()
    res.snap = final
    res.errors = sim.W.errors
    res.swallowed = sim.W.swallowed
    res.trace = sim.W.trace
    for e in common.undeclared_errors(res):
        viol.append({'kind': 'undeclared-error',
                     'detail': {k: e.get(k) for k in
                                ('type', 'msg', 'frame', 'where', 'label')}})
    from mv.props.c10 import _retriggered
    retrig = bool(_retriggered(final))
    rows_a = _strip(enginerun.canon_rows(res, error_output=False,
                                         accepted_subs_only=outer),
                    {tname, inner_name})
    # ---- run B: the new outcome from the start
    if mode == 'rerun' and not viol:
        cb = dict(c)
        ob = dict(case['outcomes'])
        if outer:
            ob[inner_name] = [new]
        elif not is_wi:
            ob[tname] = [new]
        elif reset:
            ob[tname] = [['items', {}, new]]
        else:
            # partial rerun: only the failed items get the new outcome
            orig = (case['outcomes'].get(tname) or [['ok', 'a']])[0]
            if orig[0] == 'items':
                items = {k: (new if v[0] == 'err' else v)
                         for k, v in orig[1].items()}
                dflt = new if orig[2][0] == 'err' else orig[2]
                ob[tname] = [['items', items, dflt]]
            else:
                ob[tname] = [new]
        cb['outcomes'] = ob
        cb['complete_async_at_end'] = True
        hb = history.run_history(cb, observe=False)
        retrig = retrig or bool(_retriggered(hb.res.snap))
        rows_b = _strip(enginerun.canon_rows(hb.res, error_output=False),
                        {tname, inner_name})
        # order independence of B (else skip)
        cb2 = dict(cb)
        cb2['sched'] = {'policy': 'lifo'}
        cb2['salt'] = 5
        hb2 = history.run_history(cb2, observe=False)
        rows_b2 = _strip(enginerun.canon_rows(hb2.res, error_output=False),
                         {tname, inner_name})
        retrig = retrig or bool(_retriggered(hb2.res.snap))
        if retrig:
            # known finding join-retrigger in one of the compared runs (a
            # join that left WAITING put back by a later route): not a
            # reference, counted
            if stats:
                stats.counters['known_shape_join_retrigger_seen'] += 1
        elif rows_b != rows_b2:
            if stats:
                stats.counters['differential_skipped_not_confluent'] += 1
        elif rows_a != rows_b:
            from mv.props.c02 import _diff
            viol.append({'kind': 'rerun-result-differs-from-direct-run',
                         'detail': {'task': tname, 'reset': reset,
                                    'new': new,
                                    'diff': _diff(rows_b, rows_a)}})
        elif stats:
            stats.counters['differential_compared'] += 1
    if mode == 'skip' and not viol:
        ta = final['task'][T['id']]
        if ta['state'] != 'SKIPPED':
            viol.append({'kind': 'skipped-task-not-skipped',
                         'detail': {'state': ta['state']}})
        rootf = final['wf'][res.wf_ex_id]
        if rootf['state'] not in FINAL:
            viol.append({'kind': 'not-final-after-skip',
                         'detail': {'state': rootf['state']}})
        # on-skip when the task has one, else on-success; never on-complete
        expected = _expected_after_skip(case['prog'], tname)
        got = sorted(n for n, ev in (ta['next_tasks'] or []))
        if expected is not None and got != expected:
            viol.append({'kind': 'skip-did-not-follow-on-skip-or-on-success',
                         'detail': {'expected': expected, 'got': got}})
        tdef = _all_tasks(case['prog']).get(tname) or {}
        if tdef.get('publish-on-skip'):
            tags.append('skip_with_on_skip_clause')
            if (ta['published'] or {}) != tdef['publish-on-skip']:
                viol.append({'kind': 'publish-on-skip-not-published',
                             'detail': {'published': ta['published'],
                                        'expected': tdef['publish-on-skip']}})
            sk = [t for t in final['task'].values()
                  if t['name'] == 'sk_' + tname
                  and t['wf_ex_id'] == T['wf_ex_id']]
            if len(sk) != 1 or sk[0]['state'] != 'SUCCESS':
                viol.append({'kind': 'on-skip-task-did-not-run-once',
                             'detail': {'instances': [t['state']
                                                      for t in sk]}})
    if stats is not None:
        tg = G.tags(case['prog'], case['outcomes'])
        tg.append('mode_' + mode)
        tg.append('reset' if reset else 'no_reset')
        nested = T['wf_ex_id'] != res.wf_ex_id
        downstream_join = any(
            case_task.get('join') is not None
            for case_task in _all_tasks(case['prog']).values())
        if nested:
            tg.append('rerun_in_subworkflow')
        if outer:
            tg.append('rerun_of_task_calling_failed_subworkflow')
        tg.extend(tags)
        if live:
            tg.append('rerun_while_parent_running')
        if is_wi:
            tg.append('rerun_with_items')
        if reruns > 1:
            tg.append('repeated_rerun')
        nontriv = nested or bool(is_wi) or reruns > 1 or downstream_join \
            or live or outer or bool(tags)
        stats.case(runner.fp([case['prog'], tname, mode, new, reset,
                              res.sched_taken]), nontriv, sorted(set(tg)),
                   common.sample_of(c, res, {'rerun_task': tname,
                                             'mode': mode, 'reset': reset,
                                             'new': new}))
    for v in viol:
        v['yaml'] = c['yaml'].splitlines()
    return viol


def _all_tasks(prog):
    d = dict(prog['tasks'])
    for sp in prog.get('subs') or []:
        d.update(sp['tasks'])
    return d


def _expected_after_skip(prog, tname):
    from mv.gen.workflows import clause_of
    for p in [prog] + list(prog.get('subs') or []):
        if tname in p['tasks']:
            es = p['tasks'][tname].get('on-skip') or \
                clause_of(p, tname, 'on-success')
            if any(e.get('guard') for e in es):
                return None
            return sorted(e['to'] for e in es
                          if e['to'] not in ('noop', 'fail', 'succeed',
                                             'pause'))
    return None


def _negative(case, c, h, stats):
    """A task that is not in ERROR cannot be rerun."""
    from mv import sim
    snap = h.res.snap
    ok = [t for t in snap['task'].values() if t['state'] == 'SUCCESS']
    if not ok:
        return []
    ok.sort(key=lambda t: (t['created_at'], t['id']))
    T = ok[case.get('pick', 0) % len(ok)]
    before = sim.snapshot()
    r = sim.call(sim.rpc_clients.get_engine_client().rerun_workflow, T['id'],
                 reset=True, skip=False)
    from mv import enginerun
    enginerun.run_until_quiet(enginerun.Schedule({'policy': 'fifo'}), 300)
    after = sim.snapshot()
    viol = []
    tb, ta = before['task'][T['id']], after['task'][T['id']]
    if ta['state'] != 'SUCCESS':
        viol.append({'kind': 'succeeded-task-was-rerun',
                     'detail': {'task': T['name'], 'state': ta['state'],
                                'result': r[0]}})
    n_before = sum(1 for a in before['action'].values()
                   if a['task_execution_id'] == T['id'])
    n_after = sum(1 for a in after['action'].values()
                  if a['task_execution_id'] == T['id'])
    if n_after != n_before:
        viol.append({'kind': 'succeeded-task-got-new-action',
                     'detail': {'task': T['name']}})
    if stats is not None:
        stats.case(runner.fp([case['prog'], 'neg', T['name']]), False,
                   ['negative_rerun_of_success', 'refused_%s' % r[0]])
    for v in viol:
        v['yaml'] = c['yaml'].splitlines()
    return viol


def gen_live(D, G):
    """A sub-workflow whose task fails while a parallel asynchronous
    branch keeps the enclosing workflow(s) running."""
    depth = D.int(1, 2)

    def wf(name, tasks, order):
        return {'name': name, 'type': 'direct', 'tasks': tasks,
                'order': order, 'input': {}, 'defaults': None,
                'output': None, 'lang': 'yaql'}

    def T(**kw):
        t = G.new_task()
        t['form'] = {'action': 'noop'}
        t.update(kw)
        return t
    root_tasks = {
        'a': T(action='std.async_noop'),
        'c': T(workflow='sub0'),
        'after': T()}
    root_tasks['c']['on-success'] = [{'to': 'after', 'guard': None}]
    if D.bool(0.4):
        root_tasks['c']['publish'] = {'p_c': 'tok-c'}
    subs = []
    if depth == 1:
        st = {'s0_0': T(), 's0_1': T()}
        st['s0_0']['on-success'] = [{'to': 's0_1', 'guard': None}]
        subs.append(wf('sub0', st, ['s0_0', 's0_1']))
        fail = D.choice(['s0_0', 's0_1'])
    else:
        st = {'s0_0': T(workflow='sub1'), 's0_b': T(action='std.async_noop')
              if D.bool(0.5) else T()}
        subs.append(wf('sub0', st, ['s0_0', 's0_b']))
        st1 = {'s1_0': T()}
        subs.append(wf('sub1', st1, ['s1_0']))
        fail = 's1_0'
    prog = wf('wf', root_tasks, ['a', 'c', 'after'])
    prog['subs'] = subs
    outc = {'a': [['never']], 'c': [['ok', 'a']], 'after': [['ok', 'a']],
            's0_0': [['ok', 'a']], 's0_1': [['ok', 'a']],
            's0_b': [['never']] if depth == 2 and
            subs[0]['tasks']['s0_b'].get('action') else [['ok', 'a']],
            's1_0': [['ok', 'a']]}
    outc[fail] = [['err', 'boom-' + fail]]
    return prog, outc


def strategy(max_tasks=6):
    from hypothesis import strategies as st
    from mv.gen import workflows as G
    from mv.gen.draw import HDraw
    from mv import enginerun

    @st.composite
    def strat(draw):
        D = HDraw(draw)
        F = G.feats(with_items=True, async_actions=False, cycles=False,
                    expr_failures=False, partial_joins=False,
                    state_commands=False, defaults=False, wi_subwf=False)
        async_parent = D.bool(0.3)
        if async_parent:
            F = dict(F, async_actions=True, async_p=0.25)
        if D.bool(0.25):
            prog, outc = gen_live(D, G)
            async_parent = True
        elif D.bool(0.45) or async_parent:
            prog, outc = G.gen_nested(D, F, max_tasks)
        else:
            prog, outc = G.gen_direct(D, F, max_tasks)
        mode = D.choice(['rerun', 'rerun', 'rerun', 'skip'])
        if D.bool(0.3):
            # "with retry policy": the failing plain tasks use up a retry
            # before they end in ERROR; the rerun starts a fresh attempt
            for p_ in [prog] + list(prog.get('subs') or []):
                for nm in p_['order']:
                    t_ = p_['tasks'][nm]
                    if (outc.get(nm) or [['ok']])[0][0] == 'err' and \
                            not t_.get('with-items') and \
                            not t_.get('workflow') and \
                            t_.get('join') is None:
                        t_['retry'] = {'count': D.int(1, 2), 'delay': 0}
        if mode == 'skip' and D.bool(0.6):
            # the statement's other half of skip: publish-on-skip is
            # published and on-skip is followed instead of on-success
            for p_ in [prog] + list(prog.get('subs') or []):
                for nm in list(p_['order']):
                    if (outc.get(nm) or [['ok']])[0][0] != 'err' or \
                            p_['tasks'][nm].get('with-items'):
                        continue
                    sk = 'sk_' + nm
                    p_['tasks'][sk] = G.new_task()
                    p_['tasks'][sk]['form'] = {'action': 'noop'}
                    p_['order'].append(sk)
                    outc[sk] = [['ok', 'a']]
                    p_['tasks'][nm]['on-skip'] = [{'to': sk, 'guard': None}]
                    p_['tasks'][nm]['publish-on-skip'] = {
                        'ps_' + nm: 'tok-skip-' + nm}
        return {'prog': prog, 'outcomes': outc, 'input': {},
                'async_parent': async_parent,
                'sched': enginerun.gen_schedule(D, max_devs=4),
                'sched2': enginerun.gen_schedule(D, max_devs=3),
                'salt': D.int(0, 20), 'pick': D.int(0, 3),
                'mode': mode,
                'reset': D.bool(0.6), 'repeat': 1 if D.bool(0.2) else 0,
                'new': D.choice([['ok', 'a'], ['ok', 'a'], ['ok', 'b']])}
    return strat()


def shard_main(shard, nshards, seed, tier, opts):
    from mv import sim
    st = runner.Stats()
    sched_type = common.shard_scheduler(shard)
    sim.boot(sched_type)
    fail = runner.drive(strategy(opts.get('max_tasks', 6)),
                        lambda c: check_case(c, st),
                        opts.get('examples', 40), seed * 1000 + shard,
                        time_budget=opts.get('time_budget'),
                        shrink_budget=opts.get('shrink_budget', 30), stats=st)
    if fail:
        fail['scheduler'] = sched_type
    out = {'stats': st.to_dict(), 'failures': [fail] if fail else []}
    if shard == 0:
        from mv.props import known
        out['known_hits'] = known.run_known(PROP)
    return out


def replay(path):
    from mv import sim
    f = common.replay_case(path)
    sim.boot(f.get('scheduler', 'default'))
    return check_case(f['case'])


def main(tier, seed):
    t0 = time.time()
    opts = {'examples': common.budget(tier, 50, 1200),
            'max_tasks': common.budget(tier, 6, 9),
            'time_budget': common.budget(tier, 80, 1500),
            'shrink_budget': common.budget(tier, 25, 120)}
    results = runner.run_shards('mv.props.c12', 'shard_main', 16, seed, tier,
                                opts)
    stats = runner.Stats.merge([r['stats'] for r in results])
    herrs = [h for r in results for h in r['harness_errors']]
    failures = sorted([f for r in results for f in r['failures']],
                      key=lambda f: len(str(f)))
    hits = [h for r in results for h in r.get('known_hits', [])]
    return runner.finish(
        PROP, tier, seed, 'exploration', t0, stats, failures[:1], herrs, RULE,
        known_hits=hits,
        assumptions=['differential domain: the failure is unhandled and '
                     'natural (no fail/succeed command, nothing ran because '
                     'of it) and the reference run is order independent',
                     'single engine process; SQLite'])
