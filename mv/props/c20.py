"""C20 Lost executors and stuck tasks are detected and the run moves on once.

Part A (heartbeats): parallel sync / async actions, some go silent; a drawn
plan of clock advances, heartbeats for drawn subsets, checker passes
(the real handle_expired_actions) and late genuine results under drawn
heartbeat settings.  Oracle per pass: the set of actions failed by the pass
equals the model's {RUNNING, sync, last heartbeat older than
max_missed x interval}, each with the heartbeat error; everything else is
untouched; the task/workflow follow their error handling; a late genuine
result is refused and changes nothing.
Part B (integrity): the completion hand-off of a with-items task or of a
sub-workflow task is dropped; the integrity check must complete the task once
after the configured delay, not before, and never when disabled.
"""
import datetime
import time

from mv import runner
from mv.props import common

PROP = 'C20'
FINAL = ('SUCCESS', 'ERROR', 'CANCELLED')
HB_ERR = "Heartbeat wasn't received."
RULE = ('heartbeat case = 1..4 parallel actions (sync/async, silent or '
        'completing) x settings (check_interval, max_missed, '
        'first_heartbeat_timeout, batch_size) x plan of clock advances / '
        'heartbeats for subsets / checker passes / late results; integrity '
        'case = with-items or sub-workflow task whose completion hand-off is '
        'dropped x integrity delay (incl. negative) x clock plan. '
        'Non-trivial = a checker pass within +-1 s of an expiry threshold, '
        'or a late result after expiry, or a dropped completion job; '
        'distinct = hash(case)')


def gen_case(D):
    if D.bool(0.3):
        return {'kind': 'integrity',
                'shape': D.choice(['with_items', 'subwf']),
                'delay': D.choice([-1, 3, 20, 20]),
                'n': D.int(1, 3), 'salt': D.int(0, 10),
                # a delayed task in front: integrity passes run while the
                # workflow has no RUNNING task, the task gets stuck later
                'prelude': D.choice([None, None, 15, 125, 135]),
                'advances': [D.choice([5, 9, 11, 100, 130, 140])
                             for _ in range(D.int(1, 4))]}
    k = D.int(1, 4)
    acts = []
    for i in range(k):
        acts.append({'sync': D.bool(0.7),
                     'silent': D.bool(0.6),
                     'complete_at': D.int(0, 6)})
    interval = D.choice([1, 2, 3])
    mm = D.choice([1, 2, 3])
    case = {'kind': 'heartbeat', 'acts': acts,
            'interval': interval, 'mm': mm,
            'fht': D.choice([0, 2, 5, 3600]),
            'batch': D.choice([0, 1, 10]), 'plan': [],
            'salt': D.int(0, 10),
            # stand-alone action executions (started through the API, no
            # task or workflow), created first so that they are selected
            # first: running synchronous actions like any other
            'ghosts': D.choice([0, 0, 1, 2, 3])}
    for _ in range(D.int(2, 9)):
        r = D.int(0, 9)
        if r < 4:
            case['plan'].append(['advance', D.int(1, interval * mm + 1)])
        elif r < 6:
            case['plan'].append(['heartbeat', D.int(0, 15)])
        elif r < 9:
            case['plan'].append(['check'])
        else:
            case['plan'].append(['late', D.int(0, 3)])
    case['plan'].append(['advance', interval * mm + 1])
    case['plan'].append(['check'])
    if D.bool(0.5):
        case['plan'].append(['late', D.int(0, 3)])
        case['plan'].append(['check'])
    return case


def render_hb(case):
    lines = ["version: '2.0'", "wf:", "  tasks:"]
    for i, a in enumerate(case['acts']):
        lines += ["    a%d:" % i,
                  "      action: %s" % ('std.noop' if a['sync']
                                        else 'std.async_noop'),
                  "      on-error: h%d" % i,
                  "    h%d:" % i, "      action: std.noop"]
    return '\n'.join(lines) + '\n'


def check_heartbeat(case, stats=None):
    from mv import sim, enginerun
    from mistral.services import action_heartbeat_checker as checker
    text = render_hb(case)
    sim.reset(salt=case.get('salt', 0))
    CONF = sim.CONF
    grp = 'action_heartbeat'
    CONF.set_override('check_interval', case['interval'], grp)
    CONF.set_override('max_missed_heartbeats', case['mm'], grp)
    CONF.set_override('first_heartbeat_timeout', case['fht'], grp)
    CONF.set_override('batch_size', case['batch'], grp)
    try:
        return _run_hb(case, stats, text, checker)
    finally:
        for k in ('check_interval', 'max_missed_heartbeats',
                  'first_heartbeat_timeout', 'batch_size'):
            CONF.clear_override(k, grp)
        sim.auth_context.set_ctx(sim.CTX)


def _run_hb(case, stats, text, checker):
    from mv import sim, enginerun
    acts = case['acts']

    def outcome(tname, idx, attempt, info):
        if tname is None or tname.startswith('a'):
            return ('never', None)     # the harness completes them itself
        return ('ok', 'a')

    sim.W.outcome = outcome
    for _g in range(case.get('ghosts', 0)):
        sim.call(sim.rpc_clients.get_engine_client().start_action,
                 'std.noop', {}, save_result=True)
    sim.create_workflows(text)
    kind, val = sim.start_workflow('wf', {})
    if kind != 'ok':
        return [{'kind': 'start-failed', 'detail': str(val)[:300]}]
    wid = val.id
    sched = enginerun.Schedule({'policy': 'fifo'})

    def drain():
        n = 0
        while n < 300:
            en = [c for c in sim.enabled() if c.kind != 'clock']
            if not en:
                return
            sim.fire(en[sched.choose(en)])
            n += 1

    drain()
    snap = sim.snapshot()
    # map task name -> action id
    aid = {}
    ghost_ids = []
    for a in sorted(snap['action'].values(),
                    key=lambda a: (a['created_at'], a['id'])):
        if not a['task_execution_id']:
            ghost_ids.append(a['id'])   # stand-alone action execution
            continue
        t = snap['task'][a['task_execution_id']]
        if t['name'].startswith('a'):
            aid[int(t['name'][1:])] = a['id']
    # stand-alone actions are running synchronous actions like the others:
    # indexes behind the workflow's own (silent, synchronous, no task)
    acts = list(acts)
    ghosts = set()
    for gid in ghost_ids:
        gi = len(acts)
        acts.append({'sync': True, 'silent': True, 'complete_at': 0})
        aid[gi] = gid
        ghosts.add(gi)
    T0 = sim.now()
    model_last = {i: T0 + datetime.timedelta(seconds=case['fht'])
                  for i in aid}
    completed = set()
    expired = set()
    viol = []
    near = False
    late_after_expiry = False
    limit = case['interval'] * case['mm']
    cl = sim.rpc_clients.get_engine_client()

    def complete_due():
        el = (sim.now() - T0).total_seconds()
        for i, a in enumerate(acts):
            if i in aid and not a['silent'] and i not in completed \
                    and i not in expired and el >= a['complete_at']:
                completed.add(i)
                sim.call(cl.on_action_complete, aid[i],
                         sim.ml_actions.Result(data='done-%d' % i))
        drain()

    complete_due()
    for step in case['plan']:
        if step[0] == 'advance':
            sim.timeutils.set_time_override(
                sim.now() + datetime.timedelta(seconds=step[1]))
            complete_due()
        elif step[0] == 'heartbeat':
            ids = [aid[i] for i in sorted(aid) if (step[1] >> i) & 1]
            alive = [i for i in sorted(aid) if (step[1] >> i) & 1]
            if ids:
                # a report may also name executions that are gone (or an
                # empty id), anywhere in the list: the others still count
                junk = ['no-such-id', ''][step[1] % 2]
                where = (step[1] // 2) % 3
                if where == 0:
                    rep = [junk] + ids
                elif where == 1:
                    rep = ids[:1] + [junk] + ids[1:]
                else:
                    rep = ids + [junk]
                sim.call(cl.process_action_heartbeats, rep)
                drain()
                for i in alive:
                    model_last[i] = sim.now()
        elif step[0] == 'late':
            cands = sorted(expired)
            if cands:
                i = cands[step[1] % len(cands)]
                before = sim.snapshot()
                r = sim.call(cl.on_action_complete, aid[i],
                             sim.ml_actions.Result(data='late-%d' % i))
                drain()
                after = sim.snapshot()
                late_after_expiry = True
                from mv.history import _snap_diff
                ch = _snap_diff(before, after)
                if ch:
                    viol.append({'kind': 'late-result-after-expiry-acted',
                                 'detail': {'changed': ch[:6],
                                            'result': r[0]}})
        elif step[0] == 'check':
            before = sim.snapshot()
            now = sim.now()
            exp_date = now - datetime.timedelta(seconds=limit)
            expect = set()
            for i in aid:
                a = before['action'][aid[i]]
                if a['state'] == 'RUNNING' and acts[i]['sync'] and \
                        model_last[i] < exp_date:
                    expect.add(i)
                d = (exp_date - model_last[i]).total_seconds()
                if a['state'] == 'RUNNING' and acts[i]['sync'] and \
                        abs(d) <= 1:
                    near = True
            admin = sim.auth_context.MistralContext(
                user_id=None, project_id=None, auth_token=None, is_admin=True)
            sim.auth_context.set_ctx(admin)
            r = sim.call(checker.handle_expired_actions)
            sim.auth_context.set_ctx(sim.CTX)
            if r[0] != 'ok':
                viol.append({'kind': 'checker-pass-raised',
                             'detail': str(r[1])[:300]})
            drain()
            after = sim.snapshot()
            # a batch size may legitimately spread one evaluation over
            # several passes (the statement promises expiry, not "in one
            # pass"): further passes at the same clock, as many as a
            # correct batching implementation needs, must finish the set.
            bs = case['batch'] or 0
            if bs:
                rounds = len(expect) // bs + 2
                for _ in range(rounds):
                    done = {i for i in aid
                            if after['action'][aid[i]]['state'] != 'RUNNING'}
                    if expect <= done:
                        break
                    sim.auth_context.set_ctx(admin)
                    sim.call(checker.handle_expired_actions)
                    sim.auth_context.set_ctx(sim.CTX)
                    drain()
                    after = sim.snapshot()
            got = set()
            for i in aid:
                b, a = before['action'][aid[i]], after['action'][aid[i]]
                if b['state'] == 'RUNNING' and a['state'] != 'RUNNING':
                    got.add(i)
                    if a['state'] != 'ERROR' or \
                            (a['output'] or {}).get('result') != HB_ERR:
                        viol.append({'kind': 'expired-action-wrong-result',
                                     'detail': {'state': a['state'],
                                                'output': a['output']}})
                elif b['state'] != a['state'] or b['output'] != a['output']:
                    viol.append({'kind': 'checker-touched-other-action',
                                 'detail': {'i': i, 'before': b['state'],
                                            'after': a['state']}})
            if got != expect:
                viol.append({'kind': 'wrong-set-of-expired-actions',
                             'detail': {'expired': sorted(got),
                                        'expected': sorted(expect),
                                        'sync': [x['sync'] for x in acts],
                                        'limit': limit,
                                        'ages': {i: (now - model_last[i])
                                                 .total_seconds()
                                                 for i in aid}}})
            expired |= got
            # error handling follows
            for i in got - ghosts:
                tn = 'a%d' % i
                ts = [t for t in after['task'].values() if t['name'] == tn]
                hs = [t for t in after['task'].values()
                      if t['name'] == 'h%d' % i]
                if not ts or ts[0]['state'] != 'ERROR':
                    viol.append({'kind': 'task-of-expired-action-not-error',
                                 'detail': {'task': tn, 'state':
                                            ts and ts[0]['state']}})
                if len(hs) != 1:
                    viol.append({'kind': 'error-route-after-expiry-ran-%d-'
                                 'times' % len(hs), 'detail': {'task': tn}})

    class R(object):
        errors = sim.W.errors
        swallowed = sim.W.swallowed
    for e in common.undeclared_errors(R()):
        if e.get('type') == 'ValueError' and 'already completed' in (
                e.get('msg') or ''):
            continue
        viol.append({'kind': 'undeclared-error',
                     'detail': {k: e.get(k) for k in
                                ('type', 'msg', 'frame', 'where', 'label')}})
    if stats is not None:
        tg = ['heartbeat_case', 'interval_%d' % case['interval'],
              'mm_%d' % case['mm'], 'fht_%d' % case['fht']]
        if expired:
            tg.append('some_expired')
        if late_after_expiry:
            tg.append('late_result_after_expiry')
        if near:
            tg.append('pass_near_threshold')
        stats.case(runner.fp(case), near or late_after_expiry, tg,
                   {'case': case, 'expired': sorted(expired)})
    return _dedupe(viol, text)


def render_integrity(case):
    n = case['n']
    pre = ''
    if case.get('prelude'):
        pre = ("    pre:\n      action: std.noop\n      wait-before: %d\n"
               "      on-success: w\n" % case['prelude'])
    if case['shape'] == 'with_items':
        return ("version: '2.0'\nwf:\n  tasks:\n" + pre + "    w:\n"
                "      with-items: i in <% [" + ', '.join(
                    str(i) for i in range(n)) + "] %>\n"
                "      action: std.echo output=<% $.i %>\n"
                "      on-success: after\n    after:\n"
                "      action: std.noop\n")
    return ("version: '2.0'\nwf:\n  tasks:\n" + pre +
            "    w:\n      workflow: sub\n"
            "      on-success: after\n    after:\n      action: std.noop\n"
            "sub:\n  tasks:\n    s:\n      action: std.noop\n")


def check_integrity(case, stats=None):
    from mv import sim, enginerun
    text = render_integrity(case)
    sim.reset(salt=case.get('salt', 0))
    sim.CONF.set_override('execution_integrity_check_delay', case['delay'],
                          group='engine')
    try:
        return _run_integrity(case, stats, text)
    finally:
        sim.CONF.clear_override('execution_integrity_check_delay',
                                group='engine')


def _run_integrity(case, stats, text):
    from mv import sim, enginerun
    sim.W.outcome = lambda *a: ('ok', 'v')
    dropped = {'n': 0}
    last_child_done = {'t': None}

    def drop(ev):
        # the hand-off of the last child completion to the parent task
        if case['shape'] == 'subwf' and ev.kind == 'ptx' and \
                ev.label == '_send_result' and dropped['n'] == 0:
            dropped['n'] += 1
            return True
        return False

    sim.W.drop_filter = drop
    sim.create_workflows(text)
    kind, val = sim.start_workflow('wf', {})
    if kind != 'ok':
        return [{'kind': 'start-failed', 'detail': str(val)[:300]}]
    wid = val.id
    sched = enginerun.Schedule({'policy': 'fifo'})
    viol = []
    T0 = sim.T0

    def drain(integrity):
        n = 0
        while n < 400:
            en = [c for c in sim.enabled(integrity=integrity)
                  if c.kind != 'clock']
            if case['shape'] == 'with_items':
                keep = []
                for c in en:
                    if c.kind == 'job' and \
                            c.label == '_scheduled_on_action_complete':
                        # drop the job that would complete the task
                        snap = sim.snapshot()
                        acts = [a for a in snap['action'].values()]
                        done = [a for a in acts if a['state'] in FINAL]
                        if len(done) == case['n'] and dropped['n'] == 0:
                            _drop_job(c.ref)
                            dropped['n'] += 1
                            continue
                    keep.append(c)
                en = keep
            if not en:
                return
            sim.fire(en[sched.choose(en)])
            n += 1

    drain(False)
    if case.get('prelude'):
        # passes of the integrity check while 'pre' is delayed
        t_end = T0 + datetime.timedelta(seconds=case['prelude'] + 1)
        while sim.now() < t_end:
            sim.timeutils.set_time_override(min(
                t_end, sim.now() + datetime.timedelta(seconds=11)))
            drain(True)
    snap = sim.snapshot()
    ws = [t for t in snap['task'].values() if t['name'] == 'w']
    if not ws:
        raise sim.HarnessError('task w did not start after the prelude')
    w = ws[0]
    stuck = w['state'] == 'RUNNING' and dropped['n'] == 1
    kids_done = sim.now()
    completions = 0
    first_fixed_at = None
    for adv in case['advances']:
        sim.timeutils.set_time_override(
            sim.now() + datetime.timedelta(seconds=adv))
        before = sim.snapshot()
        drain(True)
        after = sim.snapshot()
        wb = [t for t in before['task'].values() if t['name'] == 'w'][0]
        wa = [t for t in after['task'].values() if t['name'] == 'w'][0]
        if wb['state'] == 'RUNNING' and wa['state'] in FINAL:
            completions += 1
            first_fixed_at = (sim.now() - kids_done).total_seconds()
    final = sim.snapshot()
    wf_ = [t for t in final['task'].values() if t['name'] == 'w'][0]
    if stuck and case['delay'] >= 0 and wf_['state'] == 'RUNNING':
        # the check re-arms itself every 120 s: three more periods
        for _ in range(3):
            sim.timeutils.set_time_override(
                sim.now() + datetime.timedelta(seconds=125))
            drain(True)
        final = sim.snapshot()
        wf_ = [t for t in final['task'].values() if t['name'] == 'w'][0]
    afters = [t for t in final['task'].values() if t['name'] == 'after']
    elapsed = (sim.now() - kids_done).total_seconds()
    if stuck:
        if case['delay'] < 0:
            if wf_['state'] != 'RUNNING':
                viol.append({'kind': 'integrity-check-ran-although-disabled',
                             'detail': {'state': wf_['state']}})
        else:
            if first_fixed_at is not None and \
                    first_fixed_at <= case['delay']:
                viol.append({'kind': 'stuck-task-fixed-before-the-delay',
                             'detail': {'after_s': first_fixed_at,
                                        'delay': case['delay']}})
            # the check runs 10 s after start and then every 120 s
            if elapsed >= 131 + case['delay'] and wf_['state'] == 'RUNNING':
                viol.append({'kind': 'stuck-task-not-recovered',
                             'detail': {'elapsed': elapsed,
                                        'delay': case['delay']}})
            if wf_['state'] in FINAL and len(afters) != 1:
                viol.append({'kind': 'successor-ran-%d-times-after-recovery'
                             % len(afters), 'detail': {}})
            n_w_acts = len([a for a in final['action'].values()
                            if a['task_execution_id'] == wf_['id']])
            if case['shape'] == 'with_items' and n_w_acts != case['n']:
                viol.append({'kind': 'recovery-re-executed-items',
                             'detail': {'actions': n_w_acts,
                                        'n': case['n']}})

    class R(object):
        errors = sim.W.errors
        swallowed = sim.W.swallowed
    for e in common.undeclared_errors(R()):
        viol.append({'kind': 'undeclared-error',
                     'detail': {k: e.get(k) for k in
                                ('type', 'msg', 'frame', 'where', 'label')}})
    if stats is not None:
        tg = ['integrity_case', 'shape_' + case['shape'],
              'prelude_%s' % case.get('prelude'),
              'delay_%s' % case['delay'], 'stuck' if stuck else 'not_stuck']
        if wf_['state'] in FINAL and stuck:
            tg.append('recovered')
        stats.case(runner.fp(case), stuck, tg,
                   {'case': case, 'final_task_state': wf_['state'],
                    'elapsed': elapsed})
    return _dedupe(viol, text)


def _drop_job(handle):
    from mv import sim
    import heapq
    if hasattr(sim.sched, '_heap'):
        sim.sched._heap.remove(handle)
        heapq.heapify(sim.sched._heap)
        job = handle[2]
        sim.sched.in_memory_jobs.pop(job.id, None)
        with sim.db_api.transaction():
            sim.db_api.delete_scheduled_job(job.id)
    else:
        with sim.db_api.transaction():
            sim.db_api.delete_delayed_calls(id={'in': [handle]})


def _dedupe(viol, text):
    seen = set()
    out = []
    for v in viol:
        if v['kind'] in seen:
            continue
        seen.add(v['kind'])
        v['yaml'] = text.splitlines()
        out.append(v)
    return out


def check_case(case, stats=None):
    if case['kind'] == 'integrity':
        return check_integrity(case, stats)
    return check_heartbeat(case, stats)


def shard_main(shard, nshards, seed, tier, opts):
    from mv import sim
    from hypothesis import strategies as st_
    from mv.gen.draw import HDraw
    st = runner.Stats()
    sched_type = common.shard_scheduler(shard)
    sim.boot(sched_type)

    @st_.composite
    def strat(draw):
        return gen_case(HDraw(draw))

    fail = runner.drive(strat(), lambda c: check_case(c, st),
                        opts.get('examples', 60), seed * 1000 + shard,
                        time_budget=opts.get('time_budget'),
                        shrink_budget=opts.get('shrink_budget', 60), stats=st)
    if fail:
        fail['scheduler'] = sched_type
    return {'stats': st.to_dict(), 'failures': [fail] if fail else []}


def replay(path):
    from mv import sim
    f = common.replay_case(path)
    sim.boot(f.get('scheduler', 'default'))
    return check_case(f['case'])


def main(tier, seed):
    t0 = time.time()
    opts = {'examples': common.budget(tier, 90, 3000),
            'time_budget': common.budget(tier, 80, 1500),
            'shrink_budget': common.budget(tier, 60, 300)}
    results = runner.run_shards('mv.props.c20', 'shard_main', 16, seed, tier,
                                opts)
    stats = runner.Stats.merge([r['stats'] for r in results])
    herrs = [h for r in results for h in r['harness_errors']]
    failures = sorted([f for r in results for f in r['failures']],
                      key=lambda f: len(str(f)))
    return runner.finish(
        PROP, tier, seed, 'fault_enumeration', t0, stats, failures[:1],
        herrs, RULE,
        assumptions=['executor silence is modelled by never delivering a '
                     'result; heartbeats go through the real '
                     'process_action_heartbeats; checker passes call the '
                     'real handle_expired_actions under the virtual clock',
                     'the dropped hand-off is the keyed scheduler job '
                     '(with-items) or the post-commit result delivery '
                     '(sub-workflow)'])
