"""C13 Scheduled jobs run once, not early, survive crashes, and only if
committed.

baton model: 1..3 real DefaultScheduler instances (never started) share the
job store; their in-memory job runs and store polls execute in worker threads
that stop before capture / invoke / delete (outside transactions); a drawn
controller plan interleaves schedule (in a transaction that commits or rolls
back), in-memory runs, store polls, single steps, crashes, clock advances and
key queries.  Oracle: a reference model over the invocation log with virtual
timestamps.  The legacy scheduler is driven the same way for the clauses it
claims (exactly once under concurrent instances, rollback => never, key
query).
"""
import datetime
import threading
import time

from mv import runner
from mv.props import common

PROP = 'C13'
RULE = ('plan = sequence of {schedule(job, delay 0..3, key, commit|rollback) '
        'on instance i, run the in-memory job, store poll on instance i, '
        'step a parked thread, crash a parked thread, advance the clock, '
        'query pending jobs by key} over 1..3 scheduler instances and 1..3 '
        'jobs, with drawn pickup_job_after / captured_job_timeout / '
        'batch_size; then a drain phase by the survivors. Non-trivial = >= 2 '
        'instances touched the same job, or a crash between capture and '
        'delete, or a rollback after the in-memory dispatch; distinct = '
        'hash(plan, settings)')

NONCE = [0]
INVOCATIONS = []      # (job tag, virtual time, worker name)
CAPTURES = []         # (job tag, virtual time, worker name) successful
RECAPTURED_FINISHED = []   # (job tag, [holders that had finished])


def target(tag):
    from mv import sim
    INVOCATIONS.append((tag, sim.now(), threading.current_thread().name))


TARGET = 'mv.props.c13.target'


def _log_captures(s, sim, B):
    orig = s._capture_scheduled_job

    def cap(job):
        ok = orig(job)
        if ok:
            try:
                tag = job.func_args.get('tag')
            except Exception:
                tag = None
            # holders of earlier captures of this job that had already run
            # all their steps (invoke, delete) without dying
            finished = [who for t, _, who in CAPTURES if t == tag and any(
                w.name == who and w.done and not w.crashed and
                w.error is None for w in B.workers)]
            if finished:
                RECAPTURED_FINISHED.append((tag, finished))
            CAPTURES.append((tag, sim.now(),
                             threading.current_thread().name))
        return ok
    s._capture_scheduled_job = cap


def gen_case(D):
    n_inst = D.int(1, 3)
    n_jobs = D.int(1, 3)
    case = {'impl': 'default', 'n_inst': n_inst, 'n_jobs': n_jobs,
            'pickup': D.choice([1, 2, 5]), 'timeout': D.choice([1, 2, 4]),
            'batch': D.choice([None, 1, 2]), 'plan': []}
    if D.bool(0.25):
        case['impl'] = 'legacy'
    scheduled = 0
    for _ in range(D.int(3, 16)):
        r = D.int(0, 11)
        if r < 3 and scheduled < n_jobs:
            case['plan'].append(['schedule', D.int(0, n_inst - 1), scheduled,
                                 D.int(0, 3), D.choice(['k1', 'k2', None]),
                                 D.bool(0.8)])
            scheduled += 1
        elif r < 5:
            case['plan'].append(['mem', D.int(0, 2)])
        elif r < 7:
            case['plan'].append(['poll', D.int(0, n_inst - 1)])
        elif r < 9:
            case['plan'].append(['step', D.int(0, 5)])
        elif r == 9:
            case['plan'].append(['crash', D.int(0, 5)])
        elif r == 10:
            case['plan'].append(['advance', D.int(1, 4)])
        else:
            case['plan'].append(['query', D.int(0, n_inst - 1),
                                 D.choice(['k1', 'k2'])])
    return case


def check_case(case, stats=None):
    from mv import sim, baton as bt
    from mistral.scheduler import base as sched_base
    from mistral.scheduler import default_scheduler
    from mistral.services import legacy_scheduler
    NONCE[0] += 1
    # unique row ids and job tags per case: nothing left over from an
    # earlier case (a row, a late thread) can be mistaken for this one's
    sim.reset(salt=NONCE[0])
    del INVOCATIONS[:]
    del CAPTURES[:]
    del RECAPTURED_FINISHED[:]
    CONF = sim.CONF
    CONF.set_override('pickup_job_after', case['pickup'], 'scheduler')
    CONF.set_override('captured_job_timeout', case['timeout'], 'scheduler')
    CONF.set_override('batch_size', case['batch'], 'scheduler')
    try:
        return _run(case, stats, sim, bt, sched_base, default_scheduler,
                    legacy_scheduler)
    finally:
        for k in ('pickup_job_after', 'captured_job_timeout', 'batch_size'):
            CONF.clear_override(k, 'scheduler')
        sim.auth_context.set_ctx(sim.CTX)


def _run(case, stats, sim, bt, sched_base, default_scheduler,
         legacy_scheduler):
    B = bt.Baton()
    legacy = case['impl'] == 'legacy'
    insts = []
    for i in range(case['n_inst']):
        if legacy:
            s = legacy_scheduler.LegacyScheduler(sim.CONF.scheduler)
            bt.wrap_method(B, s, '_invoke_calls', 'invoke')
            bt.wrap_method(B, s, 'delete_calls', 'delete')
            bt.wrap_method(B, s, '_capture_calls', 'capture')
        else:
            s = default_scheduler.DefaultScheduler(sim.CONF.scheduler)
            _log_captures(s, sim, B)
            bt.wrap_method(B, s, '_capture_scheduled_job', 'capture')
            bt.wrap_method(B, s, '_invoke_job', 'invoke')
            bt.wrap_method(B, s, '_delete_scheduled_job', 'delete')
        insts.append(s)
    T0 = sim.now()
    jobs = {}          # idx -> model dict
    viol = []
    alive = {i: True for i in range(case['n_inst'])}
    threads = []       # (worker, inst idx, kind, job idx)
    touched = {}       # job idx -> set of instances that captured/invoked
    crash_after_capture = False
    rollback_after_dispatch = False
    mem_objs = {}      # job idx -> (inst, scheduled job object)

    def spawn(kind, i, fn, jidx=None):
        def body():
            sim.auth_context.set_ctx(sim.CTX)
            return fn()
        w = B.spawn('inst%d-%s-%d' % (i, kind, len(threads)), body)
        threads.append((w, i, kind, jidx))
        return w

    def model_pending(key):
        """committed jobs with that key that are not being processed"""
        n = 0
        for j in jobs.values():
            if not j['committed'] or j['key'] != key or j['deleted']:
                continue
            if j['captured']:
                continue
            n += 1
        return n

    def refresh_model():
        """Re-read captured/deleted flags of committed jobs from the store
        (the model does not predict them, it observes them)."""
        import sqlalchemy as sa
        eng = sim._mods['sa_base'].get_engine()
        with eng.begin() as conn:
            if legacy:
                rows = conn.execute(sa.text(
                    'SELECT method_arguments, processing FROM '
                    'delayed_calls_v2')).fetchall()
                present = {}
                for args, processing in rows:
                    for idx in jobs:
                        if '"n%d-j%d"' % (NONCE[0], idx) in (args or ''):
                            present[idx] = bool(processing)
            else:
                rows = conn.execute(sa.text(
                    'SELECT func_args, captured_at FROM scheduled_jobs_v2')
                ).fetchall()
                present = {}
                for args, cap in rows:
                    for idx in jobs:
                        if '"n%d-j%d"' % (NONCE[0], idx) in (args or ''):
                            present[idx] = cap is not None
        for idx, j in jobs.items():
            if j['committed']:
                j['deleted'] = idx not in present
                j['captured'] = present.get(idx, False)

    for op in case['plan']:
        kind = op[0]
        if kind == 'schedule':
            _, i, jidx, delay, key, commit = op
            if not alive[i]:
                continue
            job = sched_base.SchedulerJob(
                run_after=delay, func_name=TARGET,
                func_args={'tag': 'n%d-j%d' % (NONCE[0], jidx)}, key=key)
            sim.auth_context.set_ctx(sim.CTX)
            try:
                with sim.db_api.transaction():
                    insts[i].schedule(job)
                    if not commit:
                        raise RuntimeError('rollback')
            except RuntimeError:
                pass
            jobs[jidx] = {'committed': commit, 'key': key, 'inst': i,
                          'execute_at': sim.now() + datetime.timedelta(
                              seconds=delay),
                          'captured': False, 'deleted': False}
        elif kind == 'mem' and not legacy:
            # the dispatcher of the scheduling instance pops a due job
            cands = [k for k, j in sorted(jobs.items())
                     if alive[j['inst']] and j['execute_at'] <= sim.now()
                     and k not in mem_objs]
            if not cands:
                continue
            jidx = cands[op[1] % len(cands)]
            i = jobs[jidx]['inst']
            heap = insts[i]._heap
            entry = None
            for e in heap:
                try:
                    if e[2].func_args.get('tag') == 'n%d-j%d' % (NONCE[0], jidx):
                        entry = e
                except Exception:
                    pass
            if entry is None:
                continue
            heap.remove(entry)
            mem_objs[jidx] = (i, entry[2])
            if not jobs[jidx]['committed']:
                rollback_after_dispatch = True
            spawn('mem', i, lambda s=insts[i], o=entry[2]:
                  s._process_memory_job(o), jidx)
        elif kind == 'poll':
            i = op[1]
            if not alive[i]:
                continue
            if legacy:
                spawn('poll', i, lambda s=insts[i]:
                      s._process_delayed_calls())
            else:
                spawn('poll', i, lambda s=insts[i]: s._process_store_jobs())
        elif kind in ('step', 'crash'):
            parked = [t for t in threads if not t[0].done]
            if not parked:
                continue
            w, i, tk, jidx = parked[op[1] % len(parked)]
            if kind == 'step':
                B.step(w)
            else:
                if w.at in ('before:invoke', 'before:delete'):
                    crash_after_capture = True
                B.crash(w)
                # the whole instance dies: its other threads too
                alive[i] = False
                for (w2, i2, _, _) in threads:
                    if i2 == i and not w2.done:
                        B.crash(w2)
        elif kind == 'advance':
            sim.timeutils.set_time_override(
                sim.now() + datetime.timedelta(seconds=op[1]))
        elif kind == 'query':
            i, key = op[1], op[2]
            if not alive[i] or any(not t[0].done for t in threads):
                # only compared while no thread is between steps (the
                # observed captured flags are then stable)
                continue
            refresh_model()
            sim.auth_context.set_ctx(sim.CTX)
            # asked inside a transaction, as its only caller in the engine
            # (task_handler._refresh_task_state path) does: the count helper
            # is not session-aware on its own and would leave a session
            # open until it is garbage-collected
            with sim.db_api.transaction():
                got = insts[i].has_scheduled_jobs(key=key, processing=False)
            want = model_pending(key) > 0
            if bool(got) != want:
                viol.append({'kind': 'pending-jobs-query-wrong',
                             'detail': {'key': key, 'reported': bool(got),
                                        'model': want, 'instance': i,
                                        'jobs': {k: dict(v, execute_at=str(
                                            v['execute_at']))
                                                 for k, v in jobs.items()}}})
    # ---- drain: survivors finish, clock passes every deadline, polls
    for (w, i, _, _) in threads:
        if alive[i]:
            B.finish(w)
        elif not w.done:
            B.crash(w)
    survivors = [i for i in alive if alive[i]]
    if survivors:
        for _ in range(3):
            sim.timeutils.set_time_override(
                sim.now() + datetime.timedelta(
                    seconds=case['pickup'] + case['timeout'] + 5))
            for i in survivors:
                if legacy:
                    w = spawn('poll', i, lambda s=insts[i]:
                              s._process_delayed_calls())
                else:
                    # due in-memory jobs of the survivor first
                    for e in sorted(list(insts[i]._heap), key=lambda e: e[:2]):
                        insts[i]._heap.remove(e)
                        wm = spawn('mem', i, lambda s=insts[i], o=e[2]:
                                   s._process_memory_job(o))
                        B.finish(wm)
                    w = spawn('poll', i, lambda s=insts[i]:
                              s._process_store_jobs())
                B.finish(w)
    # ---- oracle over the invocation log
    inv = {}
    for tag, when, who in INVOCATIONS:
        inv.setdefault(tag, []).append((when, who))
    for jidx, j in jobs.items():
        tag = 'n%d-j%d' % (NONCE[0], jidx)
        runs = inv.get(tag, [])
        for when, who in runs:
            early = j['execute_at'] - when
            slack = datetime.timedelta(seconds=1 if legacy else 0)
            if early > slack:
                viol.append({'kind': 'job-invoked-before-its-time',
                             'detail': {'job': tag, 'at': str(when),
                                        'execute_at': str(j['execute_at'])}})
        if not j['committed'] and runs:
            viol.append({'kind': 'rolled-back-job-was-invoked',
                         'detail': {'job': tag, 'runs': len(runs)}})
        if j['committed'] and survivors and not runs and not legacy:
            viol.append({'kind': 'committed-job-never-invoked',
                         'detail': {'job': tag, 'survivors': survivors}})
        if j['committed'] and survivors and not runs and legacy and \
                not any(not alive[i] for i in alive):
            viol.append({'kind': 'committed-job-never-invoked',
                         'detail': {'job': tag, 'impl': 'legacy'}})
        if len(runs) > 1:
            # legal only when the job was re-captured after the capture
            # timeout of the previous holder had elapsed
            caps = sorted(w for t, w, _ in CAPTURES if t == tag)
            gaps = [(caps[k + 1] - caps[k]).total_seconds()
                    for k in range(len(caps) - 1)]
            if legacy or len(caps) < len(runs) or (
                    gaps and min(gaps) < case['timeout']):
                viol.append({'kind': 'job-invoked-more-than-once',
                             'detail': {'job': tag,
                                        'runs': [(str(w), who)
                                                 for w, who in runs],
                                        'captures': [str(c) for c in caps],
                                        'timeout': case['timeout']}})
        rf = [f for t, f in RECAPTURED_FINISHED if t == tag]
        if rf:
            viol.append({'kind': 'job-captured-again-after-holder-finished',
                         'detail': {'job': tag, 'finished_holders': rf[0],
                                    'runs': [(str(w), who)
                                             for w, who in runs]}})
        who_set = {who.split('-')[0] for _, who in runs}
        touched[jidx] = who_set
    for (w, i, k, _) in threads:
        if w.error is not None and not isinstance(w.error, bt.Crash) \
                and not any(c.__name__ in ('MistralException', 'MistralError')
                            for c in type(w.error).__mro__):
            viol.append({'kind': 'scheduler-step-raised',
                         'detail': {'thread': w.name,
                                    'error': '%s: %s' % (
                                        type(w.error).__name__,
                                        str(w.error)[:200])}})
    if stats is not None:
        multi = any(len(v) >= 2 for v in touched.values()) or \
            len({t[1] for t in threads}) >= 2
        nontriv = multi or crash_after_capture or rollback_after_dispatch
        tg = ['impl_' + case['impl'], 'instances_%d' % case['n_inst']]
        if crash_after_capture:
            tg.append('crash_between_capture_and_delete')
        if rollback_after_dispatch:
            tg.append('rollback_after_dispatch')
        if any(not j['committed'] for j in jobs.values()):
            tg.append('has_rollback')
        if any(len(v) > 1 for v in inv.values()):
            tg.append('job_ran_more_than_once')
        stats.case(runner.fp(case), nontriv, tg,
                   {'case': case, 'invocations': [
                       (t, str(w), who) for t, w, who in INVOCATIONS],
                    'yield_log': B.log[:40]})
    seen = set()
    out = []
    for v in viol:
        if v['kind'] in seen:
            continue
        seen.add(v['kind'])
        out.append(v)
    return out


def shard_main(shard, nshards, seed, tier, opts):
    from mv import sim
    from hypothesis import strategies as st_
    from mv.gen.draw import HDraw
    st = runner.Stats()
    sim.boot('default')

    @st_.composite
    def strat(draw):
        return gen_case(HDraw(draw))

    known = runner.known_for(PROP)

    def run(c):
        viol = check_case(c, st)
        out = []
        for v in viol:
            if any(k.get('match', {}).get('kind') == v['kind'] and
                   _sig_ok(k, v, c) for k in known):
                st.counters['known:' + v['kind']] += 1
            else:
                out.append(v)
        return out

    fail = runner.drive(strat(), run, opts.get('examples', 150),
                        seed * 1000 + shard,
                        time_budget=opts.get('time_budget'),
                        shrink_budget=opts.get('shrink_budget', 150),
                        stats=st)
    out = {'stats': st.to_dict(), 'failures': [fail] if fail else []}
    if shard == 0:
        from mv.props import known as kn
        out['known_hits'] = kn.run_known(PROP)
    return out


def _sig_ok(k, v, case):
    m = k.get('match', {})
    if m.get('requires_rollback'):
        d = v['detail']
        if not (d.get('reported') is True and d.get('model') is False):
            return False
        if case.get('impl') != 'default':
            return False
        return any(op[0] == 'schedule' and not op[5] and op[4] == d['key']
                   and op[1] == d['instance'] for op in case['plan'])
    return True


def replay(path):
    from mv import sim
    f = common.replay_case(path)
    sim.boot('default')
    return check_case(f['case'])


def main(tier, seed):
    t0 = time.time()
    opts = {'examples': common.budget(tier, 500, 5000),
            'time_budget': common.budget(tier, 80, 1500),
            'shrink_budget': common.budget(tier, 120, 500)}
    results = runner.run_shards('mv.props.c13', 'shard_main', 16, seed, tier,
                                opts)
    stats = runner.Stats.merge([r['stats'] for r in results])
    herrs = [h for r in results for h in r['harness_errors']]
    failures = sorted([f for r in results for f in r['failures']],
                      key=lambda f: len(str(f)))
    hits = [h for r in results for h in r.get('known_hits', [])]
    return runner.finish(
        PROP, tier, seed, 'fault_enumeration', t0, stats, failures[:1],
        herrs, RULE, known_hits=hits,
        assumptions=['scheduler instances are threads of one process over '
                     'one SQLite store; a thread is never parked inside a '
                     'transaction, so interleavings are at the granularity '
                     'persist / capture / invoke / delete / poll',
                     'crash = the instance stops at a yield point and never '
                     'runs again',
                     'legacy scheduler: crash recovery is not claimed by '
                     'that implementation and not asserted'])
