"""C16 Every REST operation is authorised and guarded before it has any effect.

Exhaustive, not sampled: every exposed controller method (enumerated from the
controller tree; the request table must cover all of them or the check is a
harness error) x {its documented rule denied, all rules denied, allowed} x
{resource present, absent}; admin-only listing across projects; publicize.
State matrices for executions, tasks and action executions.  Oracle: denied
=> 403, database dump unchanged, no engine call; allowed => not 403.  Guards:
only the documented moves reach the engine, the others answer 4xx and change
nothing.
"""
import itertools
import time

from mv import runner
from mv.props import common

PROP = 'C16'
RULE = ('request space = every exposed controller method x {own rule denied, '
        'all rules denied, allowed} x {resource present, absent} + '
        'all_projects/project_id listing with the admin-only rule denied + '
        'scope=public with publicize denied + state matrices (execution '
        'state x requested state x description/env; task state x requested '
        'state x reset; action state x requested state; DELETE execution x '
        'state x force). Every point is a case; non-trivial = the target '
        'resource exists (a late check would have something to read or '
        'change) or the request carries a state change; enumerated completely')

NO_RULE = {('RootController', 'index'), ('Controller', 'index'),
           ('InfoController', 'get'), ('MaintenanceController', 'get'),
           ('MaintenanceController', 'put'),
           ('SpecValidationController', 'post')}

WF_TEXT = """
version: '2.0'
%s:
  tasks:
    t1:
      action: std.async_noop
      on-error: t2
    t2:
      action: std.noop
"""
WB_TEXT = """
version: '2.0'
name: %s
workflows:
  w1:
    tasks:
      t1:
        action: std.noop
"""
ACT_TEXT = """
version: '2.0'
%s:
  base: std.echo
  base-input:
    output: hi
"""


FOREIGN = '99999999-8888-7777-6666-555555555555'


def _foreign_filter(rest, sim, owner, res, rule, st):
    """A private resource of another project must not appear in a collection
    filtered by that project's id while the admin-only rule is denied."""
    from mistral.services import triggers
    viol = []
    fctx = rest.make_ctx(FOREIGN)
    sim.auth_context.set_ctx(fctx)
    try:
        if not getattr(_foreign_filter, 'made', None) == id(sim.W):
            sim.create_workflows(WF_TEXT % 'foreign_wf')
            triggers.create_cron_trigger('foreign_ct', 'foreign_wf', {}, {},
                                         '* * * * *', None, None, None)
            _foreign_filter.made = id(sim.W)
    finally:
        sim.auth_context.set_ctx(sim.CTX)
    names = {'workflows': 'foreign_wf', 'cron_triggers': 'foreign_ct'}
    for q in ('project_id=%s' % FOREIGN,
              'project_id=%s&fields=id,name' % FOREIGN):
        rest.restore_rules()
        rest.deny([rule])
        status, data = rest.request(owner, 'GET', '/v2/%s?%s' % (res, q))
        rest.restore_rules()
        listed = names[res] in str(data)
        st.case(runner.fp(['foreign_filter', res, q]), True,
                ['foreign_project_filter', 'status_%d' % status],
                {'url': '/v2/%s?%s' % (res, q), 'status': status})
        if status != 403 and listed:
            viol.append({'kind': 'project-filter-lists-foreign-private-'
                         'resource-without-the-admin-rule',
                         'detail': {'resource': res, 'query': q,
                                    'status': status}})
    return viol


def fixtures(owner):
    """Create one resource of every type as `owner`."""
    from mv import sim, enginerun
    from mistral.services import workbooks as wb_service
    from mistral.services import adhoc_actions
    from mistral.services import triggers
    db_api = sim.db_api
    sim.auth_context.set_ctx(owner)
    f = {}
    try:
        wfs = sim.create_workflows(WF_TEXT % 'fx_wf')
        f['wf_id'], f['wf_name'] = wfs[0].id, 'fx_wf'
        wfs2 = sim.create_workflows(WF_TEXT % 'fx_wf2')
        f['wf2_id'] = wfs2[0].id
        wb_service.create_workbook_v2(WB_TEXT % 'fx_wb')
        f['wb_name'] = 'fx_wb'
        adhoc_actions.create_actions(ACT_TEXT % 'fx_act')
        f['act_name'] = 'fx_act'
        with db_api.transaction():
            cs = db_api.create_code_source({
                'name': 'fx_cs', 'src': 'class A: pass', 'version': 1,
                'namespace': ''})
            f['cs_id'] = cs.id
            da = db_api.create_dynamic_action_definition({
                'name': 'fx_da', 'class_name': 'A', 'code_source_id': cs.id,
                'code_source_name': 'fx_cs', 'namespace': ''})
            f['da_id'] = da.id
            db_api.create_environment({'name': 'fx_env',
                                       'variables': {'a': 1}})
            f['env_name'] = 'fx_env'
        triggers.create_cron_trigger('fx_cron', 'fx_wf', {}, {},
                                     '* * * * *', None, None, None)
        f['cron_name'] = 'fx_cron'
        et = triggers.create_event_trigger('fx_et', 'ex', 'topic', 'ev',
                                           f['wf_id'])
        f['et_id'] = et.id
        with db_api.transaction():
            db_api.create_resource_member({
                'resource_id': f['wf_id'], 'resource_type': 'workflow',
                'member_id': 'projM', 'status': 'pending'})
    finally:
        sim.auth_context.set_ctx(sim.CTX)
    # a RUNNING execution with a task and an (async) action execution
    sim.W.outcome = lambda *a: ('never', None)
    sim.auth_context.set_ctx(owner)
    try:
        cl = sim.rpc_clients.get_engine_client()
        ex = cl.start_workflow('fx_wf', wf_input={})
        f['ex_id'] = ex.id
    finally:
        sim.auth_context.set_ctx(sim.CTX)
    sched = enginerun.Schedule({'policy': 'fifo'})
    enginerun.run_until_quiet(sched, 200)
    snap = sim.snapshot()
    t = [x for x in snap['task'].values() if x['wf_ex_id'] == f['ex_id']][0]
    a = [x for x in snap['action'].values()
         if x['task_execution_id'] == t['id']][0]
    f['task_id'], f['aex_id'] = t['id'], a['id']
    return f


ABSENT = '11111111-2222-3333-4444-555555555555'


def table(f):
    """The request table: one entry per exposed controller method."""
    def R(cls, meth, http, url, rule, body=None, text=None, mut=False):
        return {'cls': cls, 'meth': meth, 'http': http, 'url': url,
                'rule': rule, 'body': body, 'text': text, 'mut': mut}
    wf, ex, tk, ax = f['wf_id'], f['ex_id'], f['task_id'], f['aex_id']
    return [
        R('RootController', 'index', 'GET', '/', None),
        R('Controller', 'index', 'GET', '/v2', None),
        R('InfoController', 'get', 'GET', '/info', None),
        R('MaintenanceController', 'get', 'GET', '/maintenance', None),
        R('MaintenanceController', 'put', 'PUT', '/maintenance', None,
          body={'status': 'RUNNING'}, mut=True),
        R('SpecValidationController', 'post', 'POST',
          '/v2/workflows/validate', None, text=WF_TEXT % 'v_wf'),
        # workflows
        R('WorkflowsController', 'get_all', 'GET', '/v2/workflows',
          'workflows:list'),
        R('WorkflowsController', 'get', 'GET', '/v2/workflows/%(wf)s',
          'workflows:get'),
        R('WorkflowsController', 'post', 'POST', '/v2/workflows',
          'workflows:create', text=WF_TEXT % 'new_wf', mut=True),
        R('WorkflowsController', 'put', 'PUT', '/v2/workflows',
          'workflows:update', text=(WF_TEXT % 'fx_wf') + '\n# upd\n',
          mut=True),
        R('WorkflowsController', 'delete', 'DELETE', '/v2/workflows/%(wf2)s',
          'workflows:delete', mut=True),
        # workbooks
        R('WorkbooksController', 'get_all', 'GET', '/v2/workbooks',
          'workbooks:list'),
        R('WorkbooksController', 'get', 'GET', '/v2/workbooks/%(wb)s',
          'workbooks:get'),
        R('WorkbooksController', 'post', 'POST', '/v2/workbooks',
          'workbooks:create', text=WB_TEXT % 'new_wb', mut=True),
        R('WorkbooksController', 'put', 'PUT', '/v2/workbooks',
          'workbooks:update', text=(WB_TEXT % 'fx_wb') + '\n# upd\n',
          mut=True),
        R('WorkbooksController', 'delete', 'DELETE', '/v2/workbooks/%(wb)s',
          'workbooks:delete', mut=True),
        # actions
        R('ActionsController', 'get_all', 'GET', '/v2/actions',
          'actions:list'),
        R('ActionsController', 'get', 'GET', '/v2/actions/%(act)s',
          'actions:get'),
        R('ActionsController', 'post', 'POST', '/v2/actions',
          'actions:create', text=ACT_TEXT % 'new_act', mut=True),
        R('ActionsController', 'put', 'PUT', '/v2/actions',
          'actions:update', text=(ACT_TEXT % 'fx_act') + '\n# upd\n',
          mut=True),
        R('ActionsController', 'delete', 'DELETE', '/v2/actions/%(act)s',
          'actions:delete', mut=True),
        # code sources
        R('CodeSourcesController', 'get_all', 'GET', '/v2/code_sources',
          'code_sources:list'),
        R('CodeSourcesController', 'get', 'GET', '/v2/code_sources/%(cs)s',
          'code_sources:get'),
        R('CodeSourcesController', 'post', 'POST',
          '/v2/code_sources?name=new_cs', 'code_sources:create',
          text='class B: pass', mut=True),
        R('CodeSourcesController', 'put', 'PUT', '/v2/code_sources/%(cs)s',
          'code_sources:update', text='class A2: pass', mut=True),
        R('CodeSourcesController', 'delete', 'DELETE',
          '/v2/code_sources/%(cs)s', 'code_sources:delete', mut=True),
        # dynamic actions
        R('DynamicActionsController', 'get_all', 'GET', '/v2/dynamic_actions',
          'dynamic_actions:list'),
        R('DynamicActionsController', 'get', 'GET',
          '/v2/dynamic_actions/%(da)s', 'dynamic_actions:get'),
        R('DynamicActionsController', 'post', 'POST', '/v2/dynamic_actions',
          'dynamic_actions:create',
          body={'name': 'new_da', 'class_name': 'A',
                'code_source_id': f['cs_id']}, mut=True),
        R('DynamicActionsController', 'put', 'PUT', '/v2/dynamic_actions',
          'dynamic_actions:update',
          body={'id': f['da_id'], 'name': 'fx_da', 'class_name': 'A3'},
          mut=True),
        R('DynamicActionsController', 'delete', 'DELETE',
          '/v2/dynamic_actions/%(da)s', 'dynamic_actions:delete', mut=True),
        # environments
        R('EnvironmentController', 'get_all', 'GET', '/v2/environments',
          'environments:list'),
        R('EnvironmentController', 'get', 'GET', '/v2/environments/%(env)s',
          'environments:get'),
        R('EnvironmentController', 'post', 'POST', '/v2/environments',
          'environments:create',
          body={'name': 'new_env', 'variables': '{"b": 2}'}, mut=True),
        R('EnvironmentController', 'put', 'PUT', '/v2/environments',
          'environments:update',
          body={'name': 'fx_env', 'variables': '{"a": 2}'}, mut=True),
        R('EnvironmentController', 'delete', 'DELETE',
          '/v2/environments/%(env)s', 'environments:delete', mut=True),
        # cron triggers
        R('CronTriggersController', 'get_all', 'GET', '/v2/cron_triggers',
          'cron_triggers:list'),
        R('CronTriggersController', 'get', 'GET',
          '/v2/cron_triggers/%(cron)s', 'cron_triggers:get'),
        R('CronTriggersController', 'post', 'POST', '/v2/cron_triggers',
          'cron_triggers:create',
          body={'name': 'new_cron', 'workflow_name': 'fx_wf',
                'pattern': '*/5 * * * *'}, mut=True),
        R('CronTriggersController', 'delete', 'DELETE',
          '/v2/cron_triggers/%(cron)s', 'cron_triggers:delete', mut=True),
        # event triggers
        R('EventTriggersController', 'get_all', 'GET', '/v2/event_triggers',
          'event_triggers:list'),
        R('EventTriggersController', 'get', 'GET',
          '/v2/event_triggers/%(et)s', 'event_triggers:get'),
        R('EventTriggersController', 'post', 'POST', '/v2/event_triggers',
          'event_triggers:create',
          body={'name': 'new_et', 'workflow_id': wf, 'exchange': 'e',
                'topic': 't', 'event': 'v'}, mut=True),
        R('EventTriggersController', 'put', 'PUT',
          '/v2/event_triggers/%(et)s', 'event_triggers:update',
          body={'name': 'renamed_et'}, mut=True),
        R('EventTriggersController', 'delete', 'DELETE',
          '/v2/event_triggers/%(et)s', 'event_triggers:delete', mut=True),
        # executions
        R('ExecutionsController', 'get_all', 'GET', '/v2/executions',
          'executions:list'),
        R('ExecutionsController', 'get', 'GET', '/v2/executions/%(ex)s',
          'executions:get'),
        R('ExecutionsController', 'post', 'POST', '/v2/executions',
          'executions:create', body={'workflow_name': 'fx_wf'}, mut=True),
        R('ExecutionsController', 'put', 'PUT', '/v2/executions/%(ex)s',
          'executions:update', body={'state': 'PAUSED'}, mut=True),
        R('ExecutionsController', 'delete', 'DELETE',
          '/v2/executions/%(ex)s?force=true', 'executions:delete', mut=True),
        R('SubExecutionsController', 'get', 'GET',
          '/v2/executions/%(ex)s/executions', 'executions:get'),
        R('ExecutionReportController', 'get', 'GET',
          '/v2/executions/%(ex)s/report', 'executions:get'),
        R('ExecutionTasksController', 'get_all', 'GET',
          '/v2/executions/%(ex)s/tasks', 'tasks:list'),
        # tasks
        R('TasksController', 'get_all', 'GET', '/v2/tasks', 'tasks:list'),
        R('TasksController', 'get', 'GET', '/v2/tasks/%(tk)s', 'tasks:get'),
        R('TasksController', 'put', 'PUT', '/v2/tasks/%(tk)s', 'tasks:update',
          body={'state': 'RUNNING', 'reset': True}, mut=True),
        R('TasksActionExecutionController', 'get_all', 'GET',
          '/v2/tasks/%(tk)s/action_executions', 'action_executions:list'),
        R('TasksActionExecutionController', 'get', 'GET',
          '/v2/tasks/%(tk)s/action_executions/%(ax)s',
          'action_executions:get'),
        R('TaskExecutionsController', 'get_all', 'GET',
          '/v2/tasks/%(tk)s/workflow_executions', 'executions:list'),
        # action executions
        R('ActionExecutionsController', 'get_all', 'GET',
          '/v2/action_executions', 'action_executions:list'),
        R('ActionExecutionsController', 'get', 'GET',
          '/v2/action_executions/%(ax)s', 'action_executions:get'),
        R('ActionExecutionsController', 'post', 'POST',
          '/v2/action_executions', 'action_executions:create',
          body={'name': 'std.echo', 'input': '{"output": 1}'}, mut=True),
        R('ActionExecutionsController', 'put', 'PUT',
          '/v2/action_executions/%(ax)s', 'action_executions:update',
          body={'state': 'SUCCESS', 'output': '{}'}, mut=True),
        R('ActionExecutionsController', 'delete', 'DELETE',
          '/v2/action_executions/%(ax)s', 'action_executions:delete',
          mut=True),
        # members
        R('MembersController', 'get_all', 'GET',
          '/v2/workflows/%(wf)s/members', 'members:list'),
        R('MembersController', 'get', 'GET',
          '/v2/workflows/%(wf)s/members/projM', 'members:get'),
        R('MembersController', 'post', 'POST',
          '/v2/workflows/%(wf)s/members', 'members:create',
          body={'member_id': 'projN'}, mut=True),
        R('MembersController', 'put', 'PUT',
          '/v2/workflows/%(wf)s/members/projM', 'members:update',
          body={'status': 'accepted'}, mut=True),
        R('MembersController', 'delete', 'DELETE',
          '/v2/workflows/%(wf)s/members/projM', 'members:delete', mut=True),
    ]


def subst(url, f, absent=False):
    m = {'wf': f['wf_id'], 'wf2': f['wf2_id'], 'wb': f['wb_name'],
         'act': f['act_name'], 'cs': f['cs_id'], 'da': f['da_id'],
         'env': f['env_name'], 'cron': f['cron_name'], 'et': f['et_id'],
         'ex': f['ex_id'], 'tk': f['task_id'], 'ax': f['aex_id']}
    if absent:
        m = {k: (ABSENT if k in ('wf', 'wf2', 'cs', 'da', 'et', 'ex', 'tk',
                                 'ax') else 'absent_name') for k in m}
    return url % m


def run_matrix(st, stage):
    """stage: 'routes' | 'states'.  Returns a list of violations."""
    from mv import sim, rest
    viol = []
    owner = rest.make_ctx('projA')
    sim.reset()
    f = fixtures(owner)
    tbl = table(f)
    if stage == 'routes':
        exposed = rest.exposed_methods()
        have = {(r['cls'], r['meth']) for r in tbl}
        missing = sorted({(c, m) for (_, c, m, _) in exposed} - have)
        if missing:
            raise sim.HarnessError('request table does not cover exposed '
                                   'methods: %s' % missing)
        st.counters['exposed_methods'] += len({(c, m)
                                               for (_, c, m, _) in exposed})
        # rules found in the source of each method must include the table's
        src_rules = {}
        for (_, c, m, rl) in exposed:
            src_rules.setdefault((c, m), set()).update(rl)
        base = rest.db_dump()
        for r in tbl:
            key = (r['cls'], r['meth'])
            for present in (True, False):
                url = subst(r['url'], f, absent=not present)
                if not present and '%(' not in r['url']:
                    continue
                for mode in ('rule_denied', 'all_denied', 'allowed'):
                    if r['rule'] is None and mode == 'rule_denied':
                        continue
                    if mode == 'allowed' and (r['mut'] or not present):
                        continue      # effects are exercised elsewhere
                    rest.restore_rules()
                    if mode == 'rule_denied':
                        rest.deny([r['rule']])
                    elif mode == 'all_denied':
                        rest.deny('*')
                    elif r['rule']:
                        rest.allow([r['rule']])
                    n_rpc = len(sim.W.rpc_log)
                    n_ev = len(sim.W.events)
                    status, data = rest.request(owner, r['http'], url,
                                                body=r['body'],
                                                text=r['text'])
                    rest.restore_rules()
                    after = rest.db_dump()
                    case = {'route': '%s.%s' % key, 'http': r['http'],
                            'url': url, 'mode': mode, 'present': present,
                            'status': status}
                    st.case(runner.fp([key, mode, present]), present,
                            ['mode_' + mode, 'http_' + r['http'],
                             'present' if present else 'absent',
                             'status_%d' % status], case)
                    if mode in ('rule_denied', 'all_denied'):
                        if key in NO_RULE:
                            continue
                        if status != 403:
                            viol.append({
                                'kind': 'denied-request-not-403',
                                'detail': dict(case, body=str(data)[:200])})
                        if after != base:
                            viol.append({
                                'kind': 'denied-request-changed-database',
                                'detail': dict(case, diff=rest.dump_diff(
                                    base, after))})
                            base = after
                        if len(sim.W.rpc_log) != n_rpc or \
                                len(sim.W.events) != n_ev:
                            viol.append({
                                'kind': 'denied-request-reached-engine',
                                'detail': case})
                    else:
                        if status == 403:
                            viol.append({'kind': 'allowed-request-got-403',
                                         'detail': case})
                        if after != base and not r['mut']:
                            viol.append({
                                'kind': 'read-request-changed-database',
                                'detail': dict(case, diff=rest.dump_diff(
                                    base, after))})
                            base = after
        # admin-only listing / publicize
        for res, rule in (('workflows', 'workflows:list:all_projects'),
                          ('executions', 'executions:list:all_projects'),
                          ('cron_triggers',
                           'cron_triggers:list:all_projects'),
                          ('event_triggers',
                           'event_triggers:list:all_projects')):
            for q in ('all_projects=true',
                      'project_id=99999999-8888-7777-6666-555555555555'):
                if res != 'executions' and q.startswith('project_id'):
                    # for the other resources project_id is a plain filter
                    # applied on top of the tenant-scoped query: without the
                    # admin-only rule it must not open another project's
                    # private resources (checked by content, not by status)
                    if res in ('workflows', 'cron_triggers'):
                        viol.extend(_foreign_filter(rest, sim, owner, res,
                                                    rule, st))
                    continue
                rest.restore_rules()
                rest.deny([rule])
                status, data = rest.request(owner, 'GET',
                                            '/v2/%s?%s' % (res, q))
                rest.restore_rules()
                st.case(runner.fp(['allp', res, q]), True,
                        ['all_projects_denied', 'status_%d' % status],
                        {'url': '/v2/%s?%s' % (res, q), 'status': status})
                if status != 403:
                    viol.append({'kind': 'cross-project-listing-not-403',
                                 'detail': {'resource': res, 'query': q,
                                            'status': status}})
        pubs = [('workflows', 'workflows:publicize', 'POST',
                 '/v2/workflows?scope=public', None, WF_TEXT % 'pub_wf'),
                ('workbooks', 'workbooks:publicize', 'POST',
                 '/v2/workbooks?scope=public', None, WB_TEXT % 'pub_wb'),
                ('actions', 'actions:publicize', 'POST',
                 '/v2/actions?scope=public', None, ACT_TEXT % 'pub_act'),
                ('environments', 'environments:publicize', 'POST',
                 '/v2/environments',
                 {'name': 'pub_env', 'variables': '{}', 'scope': 'public'},
                 None),
                ('cron_triggers', 'cron_triggers:publicize', 'POST',
                 '/v2/cron_triggers',
                 {'name': 'pub_cron', 'workflow_name': 'fx_wf',
                  'pattern': '* * * * *', 'scope': 'public'}, None),
                ('workflows_put', 'workflows:publicize', 'PUT',
                 '/v2/workflows?scope=public', None,
                 (WF_TEXT % 'fx_wf') + '\n# pub\n')]
        for res, rule, http, url, body, text in pubs:
            rest.restore_rules()
            rest.deny([rule])
            before = rest.db_dump()
            status, data = rest.request(owner, http, url, body=body,
                                        text=text)
            rest.restore_rules()
            after = rest.db_dump()
            st.case(runner.fp(['pub', res]), True,
                    ['publicize_denied', 'status_%d' % status],
                    {'url': url, 'status': status})
            if status != 403 or after != before:
                viol.append({'kind': 'publicize-denied-but-not-refused',
                             'detail': {'resource': res, 'status': status,
                                        'diff': rest.dump_diff(before,
                                                               after)}})
    else:
        viol.extend(state_matrices(st, owner))
    rest.restore_rules()
    return viol


def _set_state(table_, rid, state):
    from mv import sim
    import sqlalchemy as sa
    eng = sim._mods['sa_base'].get_engine()
    with eng.begin() as conn:
        conn.execute(sa.text('UPDATE %s SET state=:s WHERE id=:i' % table_),
                     {'s': state, 'i': rid})


def state_matrices(st, owner):
    from mv import sim, rest
    viol = []
    EX_STATES = ['IDLE', 'RUNNING', 'PAUSED', 'SUCCESS', 'ERROR',
                 'CANCELLED']
    REQ = ['IDLE', 'RUNNING', 'PAUSED', 'SUCCESS', 'ERROR', 'CANCELLED',
           'WAITING', 'DELAYED', 'BOGUS']
    ENGINE_OK = {'PAUSED': 'pause_workflow', 'RUNNING': 'resume_workflow',
                 'SUCCESS': 'stop_workflow', 'ERROR': 'stop_workflow',
                 'CANCELLED': 'stop_workflow'}
    # executions: current state x requested state x description/env
    for cur, req, extra in itertools.product(
            EX_STATES, REQ, (None, 'description', 'env', 'both')):
        sim.reset()
        f = fixtures(owner)
        _set_state('workflow_executions_v2', f['ex_id'], cur)
        body = {'state': req}
        if extra in ('description', 'both'):
            body['description'] = 'new-desc'
        if extra in ('env', 'both'):
            body['params'] = '{"env": {"k": "v"}}'
        n_rpc = len(sim.W.rpc_log)
        before = rest.db_dump()
        status, data = rest.request(owner, 'PUT',
                                    '/v2/executions/%s' % f['ex_id'],
                                    body=body)
        calls = [m for (_, m, _) in sim.W.rpc_log[n_rpc:]]
        after = rest.db_dump()
        case = {'matrix': 'execution', 'current': cur, 'requested': req,
                'extra': extra, 'status': status, 'engine_calls': calls}
        st.case(runner.fp(['exm', cur, req, extra]), True,
                ['execution_matrix', 'status_%d' % status], case)
        legal = req in ENGINE_OK and extra not in ('description', 'both') \
            and not (extra == 'env' and req != 'RUNNING')
        if not legal:
            if calls:
                viol.append({'kind': 'illegal-execution-update-reached-'
                             'engine', 'detail': case})
            if not (400 <= status < 500):
                viol.append({'kind': 'illegal-execution-update-not-4xx',
                             'detail': case})
            if after != before:
                viol.append({'kind': 'illegal-execution-update-changed-db',
                             'detail': dict(case, diff=rest.dump_diff(
                                 before, after))})
        else:
            bad = [c for c in calls if c != ENGINE_OK[req]]
            if bad:
                viol.append({'kind': 'execution-update-wrong-engine-call',
                             'detail': case})
    # DELETE execution x state x force
    for cur, force in itertools.product(EX_STATES, (None, 'true', 'false')):
        sim.reset()
        f = fixtures(owner)
        _set_state('workflow_executions_v2', f['ex_id'], cur)
        url = '/v2/executions/%s' % f['ex_id']
        if force:
            url += '?force=%s' % force
        status, data = rest.request(owner, 'DELETE', url)
        gone = f['ex_id'] not in sim.snapshot()['wf']
        case = {'matrix': 'delete_execution', 'current': cur, 'force': force,
                'status': status, 'deleted': gone}
        st.case(runner.fp(['exd', cur, force]), True,
                ['delete_matrix', 'status_%d' % status], case)
        finished = cur in ('SUCCESS', 'ERROR', 'CANCELLED')
        if not finished and force != 'true' and gone:
            viol.append({'kind': 'unfinished-execution-deleted-without-force',
                         'detail': case})
        if not finished and force != 'true' and not (400 <= status < 500):
            viol.append({'kind': 'unfinished-delete-not-4xx',
                         'detail': case})
    # tasks: current state x requested state x reset
    T_STATES = ['IDLE', 'WAITING', 'RUNNING', 'DELAYED', 'PAUSED', 'SUCCESS',
                'ERROR', 'CANCELLED', 'SKIPPED']
    for cur, req, reset in itertools.product(
            T_STATES, ['RUNNING', 'SKIPPED', 'SUCCESS', 'ERROR', 'IDLE',
                       'PAUSED', 'CANCELLED'], (None, True, False)):
        sim.reset()
        f = fixtures(owner)
        _set_state('task_executions_v2', f['task_id'], cur)
        if cur == 'ERROR':
            _set_state('workflow_executions_v2', f['ex_id'], 'ERROR')
        body = {'state': req}
        if reset is not None:
            body['reset'] = reset
        n_rpc = len(sim.W.rpc_log)
        before = rest.db_dump()
        status, data = rest.request(owner, 'PUT',
                                    '/v2/tasks/%s' % f['task_id'], body=body)
        calls = [m for (_, m, _) in sim.W.rpc_log[n_rpc:]]
        after = rest.db_dump()
        case = {'matrix': 'task', 'current': cur, 'requested': req,
                'reset': reset, 'status': status, 'engine_calls': calls}
        st.case(runner.fp(['tkm', cur, req, reset]), True,
                ['task_matrix', 'status_%d' % status], case)
        legal = cur == 'ERROR' and (
            req == 'SKIPPED' or (req == 'RUNNING' and reset is True))
        if not legal:
            if calls:
                viol.append({'kind': 'illegal-task-update-reached-engine',
                             'detail': case})
            if not (400 <= status < 500):
                viol.append({'kind': 'illegal-task-update-not-4xx',
                             'detail': case})
            if after != before:
                viol.append({'kind': 'illegal-task-update-changed-db',
                             'detail': dict(case, diff=rest.dump_diff(
                                 before, after))})
        elif calls and calls != ['rerun_workflow']:
            viol.append({'kind': 'task-update-wrong-engine-call',
                         'detail': case})
    # action executions: requested state
    for cur, req in itertools.product(
            ['RUNNING', 'PAUSED', 'SUCCESS', 'ERROR', 'CANCELLED'],
            ['IDLE', 'RUNNING', 'PAUSED', 'SUCCESS', 'ERROR', 'CANCELLED',
             'WAITING', 'DELAYED', 'SKIPPED', 'BOGUS']):
        sim.reset()
        f = fixtures(owner)
        _set_state('action_executions_v2', f['aex_id'], cur)
        n_rpc = len(sim.W.rpc_log)
        before = rest.db_dump()
        status, data = rest.request(
            owner, 'PUT', '/v2/action_executions/%s' % f['aex_id'],
            body={'state': req, 'output': '{"x": 1}'})
        calls = [m for (_, m, _) in sim.W.rpc_log[n_rpc:]
                 if m in ('on_action_complete', 'on_action_update')]
        after = rest.db_dump()
        case = {'matrix': 'action_execution', 'current': cur,
                'requested': req, 'status': status, 'engine_calls': calls}
        st.case(runner.fp(['axm', cur, req]), True,
                ['action_matrix', 'status_%d' % status], case)
        supported = req in ('RUNNING', 'PAUSED', 'SUCCESS', 'ERROR',
                            'CANCELLED')
        if not supported:
            if calls or after != before or not (400 <= status < 500):
                viol.append({'kind': 'unsupported-action-state-accepted',
                             'detail': dict(case, diff=rest.dump_diff(
                                 before, after))})
    return viol


def shard_main(shard, nshards, seed, tier, opts):
    from mv import sim, rest
    st = runner.Stats()
    st.max_samples = 6
    rest.boot(auth_enable=True)
    stage = 'routes' if shard == 0 else 'states'
    viol = run_matrix(st, stage)
    # one failure per kind + route
    seen = {}
    for v in viol:
        k = (v['kind'], str(v['detail'].get('route') or
                            v['detail'].get('matrix') or
                            v['detail'].get('resource')))
        seen.setdefault(k, v)
    failures = [{'case': v['detail'], 'violations': [v]}
                for v in seen.values()]
    return {'stats': st.to_dict(), 'failures': failures}


def replay(path):
    from mv import rest
    st = runner.Stats()
    rest.boot(auth_enable=True)
    f = common.replay_case(path)
    kind = f['violations'][0]['kind']
    stage = 'states' if ('update' in kind or 'delete' in kind or
                         'unsupported' in kind or 'unfinished' in kind) \
        else 'routes'
    viol = run_matrix(st, stage)
    return [v for v in viol if v['kind'] == kind]


def main(tier, seed):
    t0 = time.time()
    results = runner.run_shards('mv.props.c16', 'shard_main', 2, seed, tier,
                                {}, procs=2)
    stats = runner.Stats.merge([r['stats'] for r in results], max_samples=8)
    herrs = [h for r in results for h in r['harness_errors']]
    failures = [f for r in results for f in r['failures']]
    failures.sort(key=lambda f: len(str(f)))
    return runner.finish(
        PROP, tier, seed, 'exploration', t0, stats, failures[:5], herrs, RULE,
        assumptions=['Keystone replaced by a stub authenticator; the acting '
                     'context is injected into MistralContext.from_environ',
                     'routes without a documented policy rule (/, /v2, /info, '
                     '/maintenance, */validate) are listed and exempt from '
                     'the 403 obligation',
                     'current states of the state matrices are forged '
                     'directly in the database'],
        exhaustive=True)
