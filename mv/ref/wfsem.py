"""Reference semantics of the generated workflow subset (DESIGN.md App. A).

Written from doc/source/user/wf_lang_v2.rst and the property statements.
Never imports mistral.  Explores *all* orders of the abstract events
("instance finishes", "join re-evaluated") with memoisation and returns the
set of allowed final outcomes.

An outcome is a tuple
  (wf_state, tasks, output)
with tasks = sorted tuple of (task name, final state) over all instances and
output = sorted tuple of (key, value) (None when not determinate).
"""
from mv.gen.workflows import (ENGINE_CMDS, ExprFailure, clause_of,
                              eval_guard, inbound)

RUNNING, SUCCESS, ERROR, WAITING, PAUSED = \
    'RUNNING', 'SUCCESS', 'ERROR', 'WAITING', 'PAUSED'
DONE = (SUCCESS, ERROR)


class TooBig(Exception):
    pass


class Inst(object):
    __slots__ = ('name', 'occ', 'state', 'routed', 'handled', 'ctx',
                 'parent')

    def __init__(self, name, occ, state, ctx, parent=None):
        self.name = name
        self.occ = occ
        self.state = state
        self.routed = ()       # names of tasks in next_tasks
        self.handled = False
        self.ctx = ctx         # frozenset of (var, value) visible inbound
        self.parent = parent

    def key(self):
        return (self.name, self.occ, self.state, self.routed, self.handled,
                self.ctx)

    def clone(self):
        c = Inst(self.name, self.occ, self.state, self.ctx, self.parent)
        c.routed = self.routed
        c.handled = self.handled
        return c


class State(object):
    def __init__(self):
        self.wf = RUNNING
        self.wf_info = None
        self.insts = []
        self.output = None     # frozen at completion
        self.retrigger = False

    def key(self):
        return (self.wf, self.output,
                tuple(sorted(i.key() for i in self.insts)))

    def clone(self):
        s = State()
        s.wf = self.wf
        s.wf_info = self.wf_info
        s.insts = [i.clone() for i in self.insts]
        s.output = self.output
        s.retrigger = self.retrigger
        return s

    def by_name(self, name):
        return [i for i in self.insts if i.name == name]


def _merge(ctx, pub):
    d = dict(ctx)
    for k, v in pub.items():
        if isinstance(v, (list, tuple)) and v and v[0] == 'inc':
            d[k] = (d.get(v[1]) or 0) + 1
        else:
            d[k] = v
    return frozenset(d.items())


def _outcome(outcomes, name, occ):
    lst = outcomes.get(name) or [['ok', 'a']]
    return lst[min(occ, len(lst) - 1)]


class DirectModel(object):
    def __init__(self, prog, wf_input, outcomes, max_states=40000):
        self.prog = prog
        self.input = dict(prog.get('input') or {})
        self.input.update(wf_input or {})
        self.outcomes = outcomes
        self.max_states = max_states
        self.joins = {nm for nm, t in prog['tasks'].items()
                      if t.get('join') is not None}
        self.inb = {nm: inbound(prog, nm) for nm in prog['order']}
        self.retrigger_possible = False
        self.multi_inbound_instances = False
        self.states_explored = 0

    # ---- initial state
    def initial(self):
        s = State()
        starts = [nm for nm in self.prog['order'] if not self.inb[nm]]
        for nm in starts:
            s.insts.append(Inst(nm, 0, RUNNING, frozenset()))
        self._check_done(s)
        return s

    # ---- transitions
    def enabled(self, s):
        ev = []
        for idx, i in enumerate(s.insts):
            if i.state == RUNNING:
                ev.append(('complete', idx))
            elif i.state == WAITING and s.wf == RUNNING:
                ls = self._join_logical(s, i)
                if ls != WAITING:
                    ev.append(('refresh', idx))
        return ev

    def apply(self, s, ev):
        s = s.clone()
        kind, idx = ev
        inst = s.insts[idx]
        if kind == 'complete' and \
                self.prog['tasks'][inst.name].get('bad') == 'input':
            # the input expression fails when the task starts (A9)
            if inst.name in self.joins:
                inst.ctx = self._join_ctx(s, inst)
            self._force_fail(s, inst)
        elif kind == 'complete':
            oc = _outcome(self.outcomes, inst.name, inst.occ)
            if inst.name in self.joins:
                inst.ctx = self._join_ctx(s, inst)
            self._finish(s, inst, SUCCESS if oc[0] == 'ok' else ERROR,
                         oc[1] if oc[0] == 'ok' else None)
        else:
            ls = self._join_logical(s, inst)
            if ls == RUNNING:
                inst.state = RUNNING
                inst.ctx = self._join_ctx(s, inst)
            elif ls == ERROR:
                inst.ctx = self._join_ctx(s, inst)
                self._finish(s, inst, ERROR, None)
        self._check_done(s)
        return s

    def _finish(self, s, inst, state, result):
        t = self.prog['tasks'][inst.name]
        inst.state = state
        pub = t.get('publish') if state == SUCCESS else \
            t.get('publish-on-error')
        if (t.get('bad') == 'publish' and state == SUCCESS) or \
                (t.get('bad') == 'publish-on-error' and state == ERROR):
            # A9: a failing expression fails the task and the workflow
            self._force_fail(s, inst)
            return
        out_ctx = _merge(inst.ctx, pub or {})
        if s.wf != RUNNING:
            # finished/paused workflow: the task completes, nothing follows
            if s.wf == PAUSED:
                raise NotImplementedError('pause is modelled by callers')
            inst.ctx = out_ctx
            return
        data = dict(self.input)
        data.update(dict(out_ctx))
        fired = []
        try:
            if state == ERROR:
                for e in clause_of(self.prog, inst.name, 'on-error'):
                    if eval_guard(e.get('guard'), data, result):
                        fired.append((e, 'on-error'))
            if state == SUCCESS:
                for e in clause_of(self.prog, inst.name, 'on-success'):
                    if eval_guard(e.get('guard'), data, result):
                        fired.append((e, 'on-success'))
            for e in clause_of(self.prog, inst.name, 'on-complete'):
                if eval_guard(e.get('guard'), data, result):
                    fired.append((e, 'on-complete'))
        except ExprFailure:
            inst.ctx = out_ctx
            self._force_fail(s, inst)
            return
        if state == ERROR:
            inst.handled = any(ev == 'on-error' for _, ev in fired)
        inst.routed = tuple(sorted({e['to'] for e, _ in fired
                                    if e['to'] not in ENGINE_CMDS
                                    or e['to'] in self.prog['tasks']}))
        inst.ctx = out_ctx
        # command list: noop dropped, cut at the first fail/succeed
        cmds = [e for e, _ in fired
                if not (e['to'] == 'noop' and 'noop' not in
                        self.prog['tasks'])]
        state_cmd = None
        to_create = []
        for e in cmds:
            if e['to'] in ('fail', 'succeed', 'pause') \
                    and e['to'] not in self.prog['tasks']:
                state_cmd = e
                break
            to_create.append(e)
        for e in to_create:
            self._create(s, e['to'], out_ctx, inst)
        if state_cmd is not None:
            if state_cmd['to'] == 'pause':
                raise NotImplementedError('pause command')
            if state_cmd['to'] == 'succeed' and self.prog.get('bad_output'):
                # evaluating the output fails inside the task's completion
                self._force_fail(s, inst)
                return
            s.wf = ERROR if state_cmd['to'] == 'fail' else SUCCESS
            s.wf_info = state_cmd.get('msg')
            s.output = self._output(s, s.wf)

    def _force_fail(self, s, inst):
        inst.state = ERROR
        inst.handled = False
        inst.routed = ()
        if s.wf == RUNNING:
            s.wf = ERROR
            s.output = None

    def _create(self, s, name, ctx, parent):
        existing = s.by_name(name)
        if name in self.joins:
            if not existing:
                s.insts.append(Inst(name, 0, WAITING, frozenset()))
            elif existing[0].state != WAITING:
                # a join triggered again after it started (known finding
                # shape): the reference says it does not start again.
                s.retrigger = True
                self.retrigger_possible = True
            return
        if existing:
            self.multi_inbound_instances = True
        ni = Inst(name, len(existing), RUNNING, ctx,
                  (parent.name, parent.occ) if parent else None)
        s.insts.append(ni)

    # ---- joins
    def _arrival(self, s, jname, src, visited=None):
        """'arrived' | 'lost' | 'open' for inbound task src of join jname."""
        ex = s.by_name(src)
        if ex:
            i = ex[-1]
            if len(ex) > 1:
                self.multi_inbound_instances = True
            if i.state not in DONE:
                return 'open'
            return 'arrived' if jname in i.routed else 'lost'
        return 'open' if self._can_run(s, src, set()) else 'lost'

    def _can_run(self, s, name, visited):
        """Can task `name` (no instance yet) still get one?"""
        if name in visited:
            return False
        visited = visited | {name}
        ins = self.inb[name]
        if not ins:
            return True
        for src in ins:
            ex = s.by_name(src)
            if not ex:
                if self._can_run(s, src, visited):
                    return True
            else:
                i = ex[-1]
                if i.state not in DONE:
                    return True
                if name in i.routed:
                    return True
        return False

    def _join_logical(self, s, inst):
        jt = self.prog['tasks'][inst.name]['join']
        ins = self.inb[inst.name]
        if not ins:
            return RUNNING
        arr = [self._arrival(s, inst.name, src) for src in ins]
        n_arr = arr.count('arrived')
        n_lost = arr.count('lost')
        if jt == 'all':
            if n_arr == len(ins):
                return RUNNING
            if n_lost > 0:
                return ERROR
            return WAITING
        card = 1 if jt == 'one' else int(jt)
        if n_arr >= card:
            return RUNNING
        if n_lost > len(ins) - card:
            return ERROR
        return WAITING

    def _join_ctx(self, s, inst):
        d = {}
        for src in self.inb[inst.name]:
            for i in s.by_name(src):
                if i.state in DONE and inst.name in i.routed:
                    d.update(dict(i.ctx))
        return frozenset(d.items())

    # ---- completion
    def _check_done(self, s):
        if s.wf != RUNNING:
            return
        if any(i.state in (RUNNING, WAITING) for i in s.insts):
            return
        if all(i.handled for i in s.insts if i.state == ERROR):
            s.wf = SUCCESS
            if self.prog.get('bad_output'):
                s.wf = ERROR
        else:
            s.wf = ERROR
        s.output = self._output(s, s.wf)

    def _output(self, s, wf_state):
        out = self.prog.get('output')
        if wf_state != SUCCESS:
            # output-on-error is not generated; on ERROR only 'result'
            return None
        if not out:
            return ()
        # final context = merge of the end tasks' outbound contexts
        d = {}
        for i in s.insts:
            if i.state in DONE and not i.routed:
                d.update(dict(i.ctx))
        return tuple(sorted((k, d.get(v, 'none')) for k, v in out.items()))

    # ---- exploration
    def verdict(self, s):
        return (s.wf,
                tuple(sorted((i.name, i.state) for i in s.insts)),
                s.output)

    def outcomes_set(self):
        init = self.initial()
        seen = {init.key()}
        stack = [init]
        finals = set()
        while stack:
            s = stack.pop()
            evs = self.enabled(s)
            if not evs:
                finals.add(self.verdict(s))
                continue
            for ev in evs:
                n = self.apply(s, ev)
                k = n.key()
                if k not in seen:
                    seen.add(k)
                    if len(seen) > self.max_states:
                        raise TooBig()
                    stack.append(n)
        self.states_explored = len(seen)
        return finals


class ReverseModel(object):
    def __init__(self, prog, wf_input, outcomes, target=None):
        self.prog = prog
        self.outcomes = outcomes
        self.target = target or prog['target']
        self.retrigger_possible = False
        self.multi_inbound_instances = False
        self.states_explored = 0

    def requires(self, nm):
        r = set(self.prog['tasks'][nm].get('requires') or [])
        d = self.prog.get('defaults') or {}
        r |= set(d.get('requires') or [])
        r.discard(nm)
        return r

    def closure(self):
        out = set()
        todo = [self.target]
        while todo:
            n = todo.pop()
            if n in out:
                continue
            out.add(n)
            todo.extend(self.requires(n))
        return out

    def outcomes_set(self):
        """Reverse runs are confluent: evaluate in dependency order."""
        clo = self.closure()
        state = {}
        ctx = {}
        changed = True
        while changed:
            changed = False
            for nm in self.prog['order']:
                if nm not in clo or nm in state:
                    continue
                req = self.requires(nm)
                if all(state.get(r) == SUCCESS for r in req):
                    oc = _outcome(self.outcomes, nm, 0)
                    state[nm] = SUCCESS if oc[0] == 'ok' else ERROR
                    d = {}
                    for r in sorted(req):
                        d.update(ctx[r])
                    if state[nm] == SUCCESS:
                        d.update(self.prog['tasks'][nm].get('publish') or {})
                    ctx[nm] = d
                    changed = True
        wf = ERROR if any(v == ERROR for v in state.values()) else SUCCESS
        out = self.prog.get('output')
        if wf != SUCCESS:
            output = None
        elif not out:
            output = ()
        else:
            d = ctx.get(self.target, {})
            output = tuple(sorted((k, d.get(v, 'none'))
                                  for k, v in out.items()))
        self.states_explored = len(state)
        return {(wf, tuple(sorted(state.items())), output)}


def _without_pause(prog):
    """A `pause` command only delays the dispatch of what follows it (and of
    the successors of tasks finishing meanwhile) until an operator resumes:
    with a harness that always resumes, every run of the program is a run of
    the same program without the `pause` entries under some event order, and
    the model explores all orders."""
    import copy
    if not any(e.get('to') == 'pause'
               for t in prog['tasks'].values()
               for c in ('on-success', 'on-error', 'on-complete')
               for e in t.get(c) or []) and not any(
            e.get('to') == 'pause'
            for c in ('on-success', 'on-error', 'on-complete')
            for e in ((prog.get('defaults') or {}).get(c) or [])):
        return prog
    p = copy.deepcopy(prog)
    for t in list(p['tasks'].values()) + [p.get('defaults') or {}]:
        for c in ('on-success', 'on-error', 'on-complete'):
            if t.get(c):
                t[c] = [e for e in t[c] if e.get('to') != 'pause']
    return p


def model_for(prog, wf_input, outcomes, **kw):
    prog = _without_pause(prog)
    if prog['type'] == 'reverse':
        return ReverseModel(prog, wf_input, outcomes)
    return DirectModel(prog, wf_input, outcomes, **kw)
