#!/bin/sh
# usage: tools/take_seed.sh <SEEDID e.g. C03b> <check-id> [unit test subsets...]
# Copies the deliverables of a sub-agent from /tmp/wt-<SEEDID>/_seeded into
# seeded/<SEEDID>/, confirms them (verify_seed.sh) and runs the check against
# the change in a scratch copy.
SID=$1; CID=$2; shift; shift
WT=/tmp/wt-$SID; S=/verif/seeded/$SID
mkdir -p $S
cp $WT/_seeded/patch.diff $WT/_seeded/meta.json $S/ || exit 2
for f in $WT/_seeded/demo*.py; do cp $f $S/; done
( cd $WT && git checkout -q -- . )
/verif/tools/verify_seed.sh $SID "$@"
/verif/tools/mutant.sh $S/patch.diff $CID quick 2>&1 | tail -4 | tee -a $S/verify.log
