#!/bin/sh
# usage: tools/thorough_chain.sh ID...   (scratch output under /var/tmp/thor)
mkdir -p /var/tmp/thor
for id in "$@"; do
  VERIF_OUT=/var/tmp/thor /verif/check $id --tier thorough > /var/tmp/thor/$id.log 2>&1
  echo "$id exit=$? $(tail -1 /var/tmp/thor/$id.log | cut -c1-200)" >> /var/tmp/thor/summary.txt
done
