#!/venv/bin/python
"""Writes /verif/MANIFEST.json from the table below (single source)."""
import json, os
V = os.path.dirname(os.path.dirname(os.path.abspath(__file__)))
ASSUME = ('real engine/controllers/DB layer of the working tree run in one process over in-memory SQLite; '
          'RPC transport, executor, scheduler threads, post-commit threads, clock and uuid4 are substituted by the harness (mv/sim.py); '
          'interleavings finer than a transaction are not represented')
CHECKS = {
 'C01': dict(level='exploration', technique='property-based testing: generated workflow programs x outcome assignments x generated schedules on a deterministic engine simulation, membership oracle = all-orders reference semantics (Hypothesis)',
   text='Generated-input search: thousands of generated (program, input, action-result assignment, delivery schedule) cases per run are executed by the real engine under a harness-owned scheduler; each run must quiesce in a final state, raise only declared error types at every event boundary (including errors the scheduler would swallow), and its (state, task states, output) must be a member of the set of outcomes computed by an independent all-orders reference semantics. Exploration, not proof: absence of violations is bounded by the grammar, sizes and number of schedules reported in the evidence.',
   design='3 C01', note=ASSUME + '; reference semantics mv/ref/wfsem.py is trusted'),
 'C19': dict(level='exploration', engine='urlprobe', technique='property-based testing over a constructed URL catalogue (Hypothesis sampling in quick, exhaustive product in thorough) with a by-construction oracle and a differential oracle against the HTTP client\'s own URL parser',
   text='Every URL is built from parts whose denoted address is known by construction (textual encodings of addresses inside/outside the denied networks, names of a stub resolver zone) under six denied_cidrs/allowed_hosts configurations; validate_url must refuse exactly what the policy in the property statement refuses, HTTPAction.run and WebhookPublisher.publish must invoke the HTTP client iff the URL was not refused, and for accepted URLs the host requests/urllib3 would connect to must not denote a denied address (free-form mutated authorities included). Thorough enumerates the whole catalogue product.',
   design='3 C19', note='DNS replaced by a stub zone inside mistral.utils.egress (numeric literals still go through libc getaddrinfo); HTTP client stubbed; redirects and DNS rebinding are outside the property'),
 'C18': dict(level='exploration', engine='simworld', technique='property-based testing: generated execution-tree populations and policy settings, invariant oracle from a reference eligibility model (Hypothesis)',
   text='Generated populations of execution trees (states, ages with ties, projects, nesting with tasks/actions/sub-executions) and generated settings (older_than incl. unset, max_finished_executions, batch_size, ignored_states) are evaluated once by the real run_execution_expiration_policy under a virtual clock; the surviving rows are compared against a reference model as tie-robust invariants (only eligible roots deleted, expired ones gone, at most max_finished kept, no newer deleted while older kept, every tree complete or completely gone, evaluation terminates within a fetch budget and raises nothing).',
   design='3 C18', note='rows inserted through the DB api with forged timestamps; SQLite FK cascade stands in for the production RDBMS; one evaluation per case'),
 'C02': dict(level='exploration', technique='metamorphic property-based testing: the same generated (program, input, outcomes) run under generated and exhaustively enumerated (DFS, small programs) schedules, cache eviction and id orders; canonical final rows must coincide',
   text='For every generated program inside the property domain (deterministic outcomes, non-conflicting publishes, confluent according to the independent reference semantics) the real engine is run under FIFO/LIFO/priority/shuffled/drawn schedules, with the specification caches dropped before every event, under different id orders, and - for programs of up to 4 tasks - under every choice sequence by depth-first re-execution up to a cap; the canonical final rows (states, published variables, outputs, accepted action results) of all runs must be identical. Differences are reported with both schedules.',
   design='3 C02', note=ASSUME + '; the domain restriction (singleton reference outcome set) relies on mv/ref/wfsem.py; known finding join-retrigger excluded by shape and re-created by a sub-check'),
 'C04': dict(level='exploration', technique='property-based testing with a trace (history) oracle: world snapshot after every engine event of generated fork/join and requires programs under generated schedules',
   text='Every generated run is observed after each engine event; the oracle recomputes from the definition (reference guard evaluator, not the next_tasks column) which inbound instances completed and routed to each join before the event in which the join first became RUNNING, requires the join cardinality to be met at that point, at most one entry into RUNNING (snapshot diff and compare-and-swap log), one action execution and one task execution per join, ERROR instead of WAITING when the number can no longer be reached; for reverse workflows every task is created only after each required task is SUCCESS, only inside the target closure, once.',
   design='3 C04', note=ASSUME + '; known finding join-retrigger excluded by shape (counted) and re-created by a dedicated sub-check that prints KNOWN-FINDING'),
 'C03': dict(level='exploration', technique='stateful property-based testing: generated histories interleaving engine events with operator commands at drawn points; invariants over the compare-and-swap log and committed rows after every step (Hypothesis)',
   text='Generated histories: a generated program (direct, nested sub-workflows, with-items, asynchronous actions) runs under a drawn schedule while a drawn plan of operator commands (pause, resume, stop with each state, rerun with reset on/off, skip, external action updates to every supported state, late and duplicate results, revival of finished actions) is issued through the engine RPC client at drawn steps and after quiescence. After every step the committed rows and the log of every compare-and-swap state change are checked against the transition table of the property text: only the listed workflow moves (ERROR/CANCELLED->RUNNING only inside a rerun/skip command on that execution tree), SUCCESS tasks never change, each action accepts one result, finished workflows keep state and output, no undeclared exception in engine events.',
   design='3 C03', note=ASSUME + '; commands mirror the REST-side guards; known finding join-retrigger (a SUCCESS join reset by Task.defer) is classified by shape and re-created by a sub-check'),
 'C10': dict(level='exploration', technique='stateful property-based testing: generated histories with pause/resume commands at drawn points; post-command invariants, creation monitor, and a differential oracle against the unpaused run',
   text='Generated programs (direct, nested sub-workflows, with-items) run under drawn schedules with a drawn plan of pause/resume commands on the root or on nested executions; everything still paused is resumed at the end. Checked: an acknowledged pause leaves the execution and its unfinished sub-executions PAUSED; no task execution is created in an execution that is PAUSED before and after the creating event; no undeclared exception in any engine event; and - for programs that two unpaused runs under different schedules show to be order independent - the canonical final rows after resume equal those of the run that was never paused.',
   design='3 C10', note=ASSUME + '; programs with fail/succeed commands and with-items over sub-workflows are outside the generated domain (the latter is known finding withitems-subwf-pause, replayed by a sub-check); join-retrigger shape classified and counted'),
 'C11': dict(level='exploration', technique='stateful property-based testing: generated histories with a stop/cancel command on a drawn (root or nested, possibly paused) execution at a drawn point, followed by all remaining events and late results; tree invariants at quiescence and after every later step',
   text='Generated nested / with-items / asynchronous programs run under drawn schedules; one stop(state, message) is issued through the engine client on a drawn execution at a drawn step (optionally after a pause of some execution), then the remaining events, late and asynchronous results are delivered in drawn order. Checked: a RUNNING (or, for cancel, PAUSED) target holds the requested state with the message in state_info/output, never changes afterwards, gets no new task; after cancel every unfinished descendant is CANCELLED with its parent task and nothing is created below; each finished child is reported to its parent exactly once (counted on the message bus); stopping a finished execution changes nothing; no undeclared exception.',
   design='3 C11', note=ASSUME),
 'C12': dict(level='exploration', technique='differential property-based testing: run with a failing task + rerun (reset on/off, repeated) or skip, compared with the run that had the new outcome from the start; post-command state invariants; negative cases',
   text='Generated programs (direct, nested, with-items, joins downstream) whose assignment lets exactly one task fail unhandled are run to the ERROR end; the failed task is rerun through the engine client with a new outcome (reset on/off, optionally failing once more first) or skipped, and the run continues under a second drawn schedule. Right after the command the task, its workflow and every enclosing workflow and parent task must be RUNNING (SKIPPED for skip); at quiescence the canonical rows must equal those of the run in which the task produced the new result the first time (reference run checked for order independence); skip must follow on-success; a SUCCESS task must not be rerunnable.',
   design='3 C12', note=ASSUME + '; with-items tasks with a concurrency limit are not rerun by the generator (known finding withitems-rerun-concurrency, replayed by a sub-check)'),
 'C06': dict(level='fault_enumeration', technique='fault-injection property-based testing: generated duplicate/redelivery plans over generated runs (differential against the duplicate-free run, per-delivery row equality) plus generated executor cases against the real DefaultExecutor',
   text='Engine part: generated programs (direct, nested, with-items, asynchronous actions, optional pauses of actions/workflows) run under drawn schedules with a drawn plan that duplicates action results, start_task requests and the id-carrying start_workflow request (1-2 extra copies; delivered immediately, later or after the run went quiet). Every duplicate delivery must leave all execution rows unchanged (it may be rejected with any exception), no action execution may be dispatched twice, and the canonical final rows must equal the duplicate-free run. Executor part: DefaultExecutor.run_action with generated (redelivered, safe_rerun, action returning value/Result/error/raising/async, engine client ok / Mistral error / bus error): an unsafe redelivered action is not run and reported once as error, at most one result is reported per run.',
   design='3 C06', note=ASSUME + '; redelivery of the message bus is modelled by the plan (a copy is delivered after its original)'),
 'C07': dict(level='exploration', technique='property-based testing with a per-event monitor: generated with-items tasks (item count, zipped lists, concurrency literal/expression, action or sub-workflow items, per-item outcomes incl. cancel), generated completion orders, optional rerun with reset on/off',
   text='For every generated with-items case the world is observed after each engine event: the number of started-but-unfinished child executions never exceeds the concurrency limit, the task never completes while an item is unfinished or missing, every index 0..n-1 gets exactly one execution (one accepted execution after a rerun), the final state is CANCELLED > ERROR > SUCCESS by item outcomes, an empty list succeeds without starting anything, the published task result lists the item results in index order whatever the completion order, and a rerun without reset executes exactly the failed indexes (with reset: all).',
   design='3 C07', note=ASSUME + '; reruns are generated only for tasks without concurrency limit (known finding withitems-rerun-concurrency, replayed by a sub-check)'),
 'C08': dict(level='exploration', technique='property-based testing with a virtual clock: generated policy parameters (literal / YAQL / Jinja / task-defaults / invalid evaluated values), per-attempt outcomes and schedules in which clock advances race results; reference model of the documented policy semantics evaluated over the observed trace',
   text='One policy-decorated task per case: retry (count, delay, break-on, continue-on), wait-before, wait-after, timeout, fail-on, pause-before in every parameter form, with drawn per-attempt outcomes (ok / error / never) under schedules where advancing the virtual clock is a schedulable choice. Checked over the trace with virtual timestamps: at most count+1 attempts; exact attempt count and final state from a reference model of stop-at-first-success / continue-on / break-on / fail-on; every DELAYED period lasts at least the delay of the policy that caused it; the follow-up task for the final state exists exactly once and the other does not; a timeout timer firing after completion changes no row; pause-before pauses the workflow and nothing starts before resume; an invalid evaluated value fails the task instead of hanging; no undeclared exception.',
   design='3 C08', note=ASSUME + '; whole-second virtual clock; exact-count and delay oracles are applied only to cases without a timeout (timeout/retry interplay is checked for termination, bounds and timer no-ops)'),
 'C09': dict(level='exploration', technique='property-based testing: generated nesting shapes (workbook-relative / full / expression calls, name families sharing characters, with-items callers, namespace, env, extra input, in-process or via bus) with generated leaf outcomes, operator cancels and schedules; pairwise parent-task/child invariants at quiescence',
   text='For every generated nesting case the rows at quiescence must satisfy, for each parent task / child execution pair: task state equals child state (SUCCESS/ERROR/CANCELLED; aggregated for with-items), the task result equals the child output, every descendant records the root execution id and the root namespace, undeclared input keys appear in the child params, the root environment is what expressions in every leaf see (captured from the evaluated action input), a standalone workflow never shadows a workbook member for a short-name call, the parent continues exactly once (successor / error handler created once) and each finished child is reported exactly once on the bus.',
   design='3 C09', note=ASSUME),
}
NA = []
def main():
    checks = []
    for pid in sorted(CHECKS):
        c = CHECKS[pid]
        checks.append({
            'property_id': pid,
            'quick_cmd': './check %s --tier quick' % pid,
            'thorough_cmd': './check %s --tier thorough' % pid,
            'evidence_file': '/verif/evidence/%s.json' % pid,
            'replay_cmd_template': './check %s --replay {path}' % pid,
            'engine': c.get('engine', 'simworld'),
            'level_claimed': {'category': c['level'], 'text': c['text'], 'design_ref': 'DESIGN.md section ' + c['design']},
            'level_note': c['note'],
            'technique': c['technique'],
        })
    claimed = set(CHECKS)
    props = [json.loads(l)['id'] for l in open(os.path.join(V, 'properties.jsonl'))]
    na = list(NA)
    listed = {n['property_id'] for n in na}
    for p in props:
        if p not in claimed and p not in listed:
            na.append({'property_id': p, 'reason': 'check not built yet in this round (planned, see DESIGN.md section 3); not claimed'})
    m = {
      'version': 1,
      'setup_cmd': 'sh /verif/setup.sh',
      'hooks': {'guard': 'MISTRAL_VERIF', 'enable': 'no in-tree hooks: every instrumentation point is a monkeypatch applied by /verif/mv/sim.py at boot; checks import /repo working tree directly (editable install)',
                'baseline_off_cmd': 'cd /repo && /venv/bin/python -m pytest -ra -q -p no:cacheprovider --timeout=900 --continue-on-collection-errors',
                'source_commits': [], 'add_only': True},
      'engines': [
        {'name': 'urlprobe', 'path': 'mv/props/c19.py', 'serves_properties': ['C19'], 'kind_free_text': 'catalogue-driven URL generator with stub resolver and stubbed HTTP client'},
        {'name': 'simworld', 'path': 'mv/sim.py', 'serves_properties': sorted(p for p in CHECKS if CHECKS[p].get('engine', 'simworld') == 'simworld'),
         'kind_free_text': 'deterministic single-process Mistral: real engine + DB, harness-owned event scheduling, virtual clock; driven by Hypothesis'},
      ],
      'checks': checks,
      'not_applicable': na,
      'notes': 'All checks: ./check <ID> --tier quick|thorough; VERIF_SEED seeds Hypothesis per shard (seed*1000+shard); exit 0/1/2 = held / VIOLATION / HARNESS-ERROR.',
    }
    json.dump(m, open(os.path.join(V, 'MANIFEST.json'), 'w'), indent=1)
    import jsonschema
    jsonschema.validate(m, json.load(open('/root/.vp/MANIFEST.schema.json')))
    print('MANIFEST ok: %d checks, %d not claimed' % (len(checks), len(na)))
if __name__ == '__main__':
    main()
