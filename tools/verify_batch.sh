#!/bin/sh
# usage: tools/verify_batch.sh ID...   (fresh worktree at /repo HEAD per seed)
for id in "$@"; do
  git -C /repo worktree add -q --detach /tmp/wt-$id HEAD || continue
  case $id in
    C13|C17) T="mistral/tests/unit/scheduler mistral/tests/unit/services mistral/tests/unit/db";;
    C14) T="mistral/tests/unit/lang mistral/tests/unit/services";;
    C15|C16) T="mistral/tests/unit/api mistral/tests/unit/db";;
    C18) T="mistral/tests/unit/services mistral/tests/unit/db";;
    C19) T="mistral/tests/unit/utils mistral/tests/unit/actions mistral/tests/unit/notifiers";;
    *) T="mistral/tests/unit/engine mistral/tests/unit/workflow";;
  esac
  /verif/tools/verify_seed.sh $id $T > /tmp/verify_$id.log 2>&1
  git -C /repo worktree remove --force /tmp/wt-$id
done
