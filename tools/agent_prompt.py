import json, sys
pid = sys.argv[1]
wt = sys.argv[2] if len(sys.argv) > 2 else '/tmp/wt-' + pid
mech = int(sys.argv[3]) if len(sys.argv) > 3 and sys.argv[3] != '-' else None
avoid = sys.argv[4] if len(sys.argv) > 4 else None
for l in open('/verif/properties.jsonl'):
    p = json.loads(l)
    if p['id'] == pid: break
hint = ''
if mech is not None:
    ms = p['anchors']['mechanism']
    m = ms[mech % len(ms)]
    hint = ("  The property rests on several mechanisms; for this exercise aim at this one (or code it cooperates with): "
            + m['name'] + " [" + m['where'] + "]. Files involved in the property: " + ', '.join(p['anchors']['files']) + "\n")
if avoid:
    hint += "  An earlier exercise already changed " + avoid + "; pick a different site and a different failure mode.\n"
print(f"""You are helping evaluate a verification effort for the OpenStack Mistral workflow service (Python). You have your OWN scratch git worktree of the repository at {wt} (a checkout of the pinned commit). Work ONLY inside {wt}. Never touch /repo or /verif, never read anything under /verif.

Property (this must hold for the real system):
  Title: {p['title']}
  Statement: {p['statement']}
  Quantified over: {p['quantifier']['text']}
{hint}

Your task: produce ONE realistic source change (a "seeded defect") to the mistral package in your worktree that BREAKS this property, while:
  1. the package still imports/compiles, and
  2. the existing unit test suite still passes (run it from the worktree: `cd {wt} && /venv/bin/python -m pytest -q -p no:cacheprovider --timeout=900 -x -q mistral/tests/unit/<relevant subdirs>` while iterating; before finishing run the relevant large subsets, e.g. mistral/tests/unit/engine, mistral/tests/unit/workflow, mistral/tests/unit/services, mistral/tests/unit/api, mistral/tests/unit/lang, mistral/tests/unit/scheduler, mistral/tests/unit/db — whichever your change can affect — and confirm no test that passed before fails now; check with `python -c "import mistral; print(mistral.__file__)"` run from the worktree directory that the worktree copy is the one imported. Four tests fail on the unmodified tree already; ignore failures that also happen without your change).
  3. the defect is SUBTLE: it must need something specific to manifest — a particular interleaving/ordering of events, a crash or fault at a particular point, a multi-step sequence of operations, an unusual input or configuration, or two cooperating sites that each look fine alone. NOT something ordinary use would expose at once, and not a change that makes everything fail. It should look like a plausible bug a developer could introduce (an off-by-one, a dropped guard, a wrong comparison, a missing re-check, a refactoring slip), small (a few lines), in non-test code only. Do not add comments that reveal it.

Deliverables, all written under {wt}/_seeded/ :
  - patch.diff : `git diff` of your change against HEAD (source change only, no tests), applicable with `git apply` at the repository root.
  - demo.py (or demo_test.py): a self-contained demonstration — a small program or test using the repository's own test infrastructure (e.g. subclassing mistral.tests.unit.engine.base.EngineTestCase or plain unit-level calls with mocks) — that FAILS (non-zero exit / failing assertion) with your change applied and PASSES on the unmodified code. Say exactly how to run it from the worktree root (e.g. `/venv/bin/python -m pytest -q -p no:cacheprovider _seeded/demo_test.py`). Verify both directions yourself (use `git diff > _seeded/patch.diff; git apply -R _seeded/patch.diff` to test without the change, then `git apply _seeded/patch.diff` to re-apply; NEVER use `git stash`: the stash is shared between worktrees).
  - meta.json : {{"property": "{pid}", "summary": "...what the change does...", "needs": "...what specific circumstance is needed for it to manifest...", "files": [...], "demo_cmd": "...", "tests_run": "...which test subsets you ran and their result..."}}

Environment notes: no network; Python is /venv/bin/python; pytest is available there; the tests use in-memory sqlite. Unit tests write a mistral.log file in the cwd — ignore it, and do not include it in the patch. Keep the worktree's source change applied when you finish (the deliverables describe it). In your final answer, summarise the change, what it needs to manifest, and the results of running demo with/without the change and the test subsets.""")
