#!/bin/sh
# usage: tools/verify_seed.sh <ID> [test subset paths...]
# Confirms in the scratch worktree /tmp/wt-<ID>: demo passes without the
# patch, fails with it, and the given unit-test subsets pass with it.
ID=$1; shift
WT=/tmp/wt-$ID; S=/verif/seeded/$ID; LOG=$S/verify.log
cd $WT || exit 2
DEMO=$(ls $S | grep -E '^demo.*\.py$' | head -1)
mkdir -p $WT/_seeded && cp $S/$DEMO $WT/_seeded/
git checkout -q -- . 2>/dev/null
: > $LOG
run_demo() {
  case $DEMO in
    *test*.py) /venv/bin/python -m pytest -q -p no:cacheprovider --timeout=600 _seeded/$DEMO >/tmp/demo_$ID.out 2>&1 ;;
    *) /venv/bin/python _seeded/$DEMO >/tmp/demo_$ID.out 2>&1 ;;
  esac
  echo $?
}
echo "demo without patch: exit $(run_demo)" >> $LOG
git apply $S/patch.diff || { echo "patch does not apply" >> $LOG; exit 2; }
echo "demo with patch: exit $(run_demo)" >> $LOG
tail -3 /tmp/demo_$ID.out >> $LOG
if [ $# -gt 0 ]; then
  /venv/bin/python -m pytest -q -p no:cacheprovider --timeout=900 -n 4 "$@" >/tmp/tests_$ID.out 2>&1
  echo "unit tests ($*) with patch: exit $? : $(tail -1 /tmp/tests_$ID.out)" >> $LOG
fi
git checkout -q -- .
cat $LOG
