#!/bin/sh
# usage: tools/regress_matrix.sh [ID...]
# For every mutant / seeded change: does the regression tier alone (saved
# inputs, no search) report it?  Writes REGRESSMATRIX.md.
cd /verif
IDS="$@"
[ -z "$IDS" ] && IDS=$(ls mutants seeded | grep -o '^C[0-9][0-9]' | sort -u)
OUT=/verif/REGRESSMATRIX.md
TMP=/var/tmp/regressmatrix.$$
: > $TMP
for id in $IDS; do
  for p in mutants/$id/*.patch seeded/$id*/patch.diff; do
    [ -f "$p" ] || continue
    cid=$id
    [ -f "$(dirname $p)/check" ] && cid=$(cat "$(dirname $p)/check")
    D=/var/tmp/mv-rm-$$
    mkdir -p $D/out && cp -r /repo/mistral $D/mistral
    ( cd $D && patch -p1 -s < /verif/$p ) || { echo "| $id | $p | patch failed |" >> $TMP; rm -rf $D; continue; }
    VERIF_REPO=$D VERIF_OUT=$D/out ./check $cid --regress-only > $D/log 2>&1
    rc=$?
    f=$(grep -o 'replay=[^ ]*' $D/log | head -1 | sed 's/.*regress\///')
    echo "| $cid | $p | exit=$rc | $f |" >> $TMP
    echo "$id $p exit=$rc $f"
    rm -rf $D
  done
done
{
  echo "# Regression tier alone (tools/regress_matrix.sh): saved inputs replayed against each change"
  echo
  echo "| check | change | result | first failing saved input |"
  echo "|---|---|---|---|"
  cat $TMP
} > $OUT
rm -f $TMP
