#!/bin/sh
# usage: tools/mutant.sh <patch-file> <check-id> [tier]
# Applies a patch to a scratch copy of /repo (outside /repo and /verif), runs
# the check against it with VERIF_REPO, prints the exit code, removes the copy.
P=$(readlink -f "$1"); ID=$2; TIER=${3:-quick}
D=/var/tmp/mv-mut-$$
mkdir -p $D/out && cp -r /repo/mistral $D/mistral || exit 2
( cd $D && patch -p1 -s < "$P" ) || { echo "PATCH FAILED"; rm -rf $D; exit 2; }
find $D -name __pycache__ -prune -exec rm -rf {} + 2>/dev/null
VERIF_REPO=$D VERIF_OUT=$D/out /verif/check $ID --tier $TIER
RC=$?
echo "mutant $(basename $P) check $ID exit=$RC"
rm -rf $D
exit $RC
