#!/bin/sh
# usage: tools/mutant.sh <patch-file> <check-id> [tier]
# Applies a patch to a scratch copy of /repo (outside /repo and /verif), runs
# the check against it with VERIF_REPO, prints the exit code, removes the copy.
# KEEP_REPLAY=<dir>: the replay files the run produced are copied there as
# <check-id>--<patch name>--<n>.json before the scratch copy is removed.
P=$(readlink -f "$1"); ID=$2; TIER=${3:-quick}
D=/var/tmp/mv-mut-$$
mkdir -p $D/out && cp -r /repo/mistral $D/mistral || exit 2
( cd $D && patch -p1 -s < "$P" ) || { echo "PATCH FAILED"; rm -rf $D; exit 2; }
find $D -name __pycache__ -prune -exec rm -rf {} + 2>/dev/null
VERIF_REPO=$D VERIF_OUT=$D/out VERIF_NO_REGRESS=${VERIF_NO_REGRESS:-} /verif/check $ID --tier $TIER
RC=$?
if [ -n "$KEEP_REPLAY" ] && [ -d $D/out/replays ]; then
  mkdir -p "$KEEP_REPLAY"
  n=0
  PN=$(basename $(dirname $P))-$(basename $P | sed 's/\.patch$//; s/\.diff$//')
  for f in $D/out/replays/*.json; do
    [ -f "$f" ] || continue
    cp "$f" "$KEEP_REPLAY/$ID--$PN--$n.json"; n=$((n+1))
  done
fi
echo "mutant $(basename $P) check $ID exit=$RC"
rm -rf $D
exit $RC
