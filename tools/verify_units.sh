#!/bin/sh
# usage: tools/verify_units.sh <SEEDID> <test paths...>
# Re-runs only the "existing unit tests pass with the change" step of the
# confirmation for a saved seed, in its scratch worktree, and appends the
# outcome to seeded/<SEEDID>/verify.log.
SID=$1; shift
WT=/tmp/wt-$SID; S=/verif/seeded/$SID
cd $WT || exit 2
git checkout -q -- . 2>/dev/null
git apply $S/patch.diff || { echo "patch does not apply in $WT" >> $S/verify.log; exit 2; }
/venv/bin/python -m pytest -q -p no:cacheprovider --timeout=900 -n 6 "$@" > /tmp/units_$SID.out 2>&1
echo "unit tests ($*) with patch: exit $? : $(tail -1 /tmp/units_$SID.out)" >> $S/verify.log
git checkout -q -- .
tail -1 $S/verify.log
