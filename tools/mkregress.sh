#!/bin/sh
# usage: tools/mkregress.sh
# Turns the replay files kept by tools/killmatrix.sh into the regression tier:
# a candidate is stored as regress/<ID>/<change>.json when it passes on the
# unchanged tree (replayed outside Hypothesis) - it failed on the changed tree
# by construction.  One file per change.
cd /verif
for f in /var/tmp/regress-cand/*--0.json; do
  [ -f "$f" ] || continue
  b=$(basename $f .json); id=${b%%--*}; rest=${b#*--}; name=${rest%--0}
  if VERIF_NO_REGRESS=1 ./check $id --replay $f >/dev/null 2>&1; then
    mkdir -p regress/$id
    cp $f regress/$id/$name.json
    echo "kept regress/$id/$name.json"
  else
    echo "dropped $b (does not pass on the unchanged tree: rc=$?)"
  fi
done
